#!/bin/bash
# Must-fail / must-pass corpus for the verifier itself. Exit 0 iff every Good* function verifies
# completely and every Bad* function has at least one undischarged obligation.
set -u
cd "$(dirname "$0")/pkg"
export PATH=/opt/veriftools/go1.26.8/bin:$PATH GOTOOLCHAIN=local GOFLAGS=-mod=mod GOPROXY=off
FUNCS=$(grep -o '^func \(([a-z]* \*\?[A-Za-z]*) \)\?\(Good\|Bad\)[A-Za-z]*' st.go | sed -E 's/^func \(([a-z]+) (\*?)([A-Za-z]+)\) /.(\2\3)./; s/^func /./; s/^\.\(/selftest.(/; s/^\./selftest./' | sed 's/^selftest\./selftest./' | paste -sd, -)
# closures under contract are named in "// selftest-extra: <key>" lines
EXTRA=$(grep -o '^// selftest-extra: .*' st.go | sed 's/^\/\/ selftest-extra: //' | paste -sd, -)
[ -n "$EXTRA" ] && FUNCS="$FUNCS,$EXTRA"
OUT=$(mktemp)
../../bin/govc -repo "$PWD" -specs "" -funcs "$FUNCS" -json-summary 2>/dev/null > "$OUT"
rc=0
while read -r name total proved err; do
  case "$name" in
    *Good*) if [ "$total" != "$proved" ] || [ "$err" != "-" ]; then echo "SELFTEST FAIL: $name should verify ($proved/$total $err)"; rc=1; fi;;
    *Bad*)  if [ "$total" = "$proved" ] && [ "$err" = "-" ]; then echo "SELFTEST FAIL: $name should NOT verify ($proved/$total)"; rc=1; fi;;
  esac
done < "$OUT"
n=$(wc -l < "$OUT")
echo "selftest: $n functions checked, rc=$rc"
rm -f "$OUT"
[ "$n" -gt 20 ] || { echo "SELFTEST FAIL: too few functions ran"; rc=1; }
exit $rc
