// Package selftest: functions whose verification outcome is known. Names starting
// with Bad must have at least one undischarged obligation, names starting with
// Good must verify completely. Run by /verif/selftest/run.sh on every engine change.
package selftest

import (
	"crypto/rand"
	"encoding/binary"
	"errors"
	"time"
)

var ErrShort = errors.New("short")

type Ring struct {
	buf  []uint64
	mask uint64
	n    int
}

func BadIndexNoCheck(b []byte) byte { return b[0] }

func GoodIndexChecked(b []byte) byte {
	if len(b) == 0 {
		return 0
	}
	return b[0]
}

func BadIndexOffByOne(b []byte, i int) byte {
	if i < 0 || i > len(b) {
		return 0
	}
	return b[i]
}

func GoodIndexBounded(b []byte, i int) byte {
	if i < 0 || i >= len(b) {
		return 0
	}
	return b[i]
}

func BadSliceBounds(b []byte, n int) []byte { return b[:n] }

func GoodSliceBounds(b []byte, n int) []byte {
	if n < 0 || n > len(b) {
		return nil
	}
	return b[:n]
}

func BadDiv(a, b int) int { return a / b }

func GoodDiv(a, b int) int {
	if b == 0 {
		return 0
	}
	return a / b
}

// second check must not be discharged by the "assume after check" of itself or of later checks
func BadSecondIndex(b []byte) byte {
	if len(b) < 1 {
		return 0
	}
	x := b[0]
	return x + b[1]
}

func BadEnsuresWrong(a, b uint32) uint32 { return a + b } // contract claims no wrap

func GoodEnsuresWrap(a, b uint32) uint32 { return a + b }

func BadBigEndian(b []byte) uint64 {
	if len(b) < 7 {
		return 0
	}
	return binary.BigEndian.Uint64(b)
}

func GoodBigEndian(b []byte) uint64 {
	if len(b) < 8 {
		return 0
	}
	return binary.BigEndian.Uint64(b)
}

func BadLoopSum(xs []int) int { // invariant too weak for the postcondition
	s := 0
	for i := 0; i < len(xs); i++ {
		s += 1
	}
	return s
}

func GoodLoopCount(xs []int) int {
	s := 0
	for i := 0; i < len(xs); i++ {
		s += 1
	}
	return s
}

func BadLoopInvariantNotPreserved(n int) int {
	s := 0
	for i := 0; i < n; i++ {
		s += 2
	}
	return s
}

func (r *Ring) BadModifies(i int) { // writes r.n, not in its modifies clause
	r.n = i
}

func (r *Ring) GoodModifies(i int) {
	r.n = i
}

func (r *Ring) BadFrameViaCallee(i int) { // callee modifies r.n; caller's frame forbids
	r.GoodModifies(i)
}

func (r *Ring) BadClear(i uint64) { // index masked with the wrong mask
	r.buf[i&(r.mask+1)] = 0
}

func (r *Ring) GoodClear(i uint64) {
	r.buf[i&r.mask] = 0
}

func BadNilMap(m map[string]int, k string) { m[k] = 1 }

func GoodNilMap(m map[string]int, k string) {
	if m == nil {
		return
	}
	m[k] = 1
}

func BadErrNil(b []byte) (int, error) { // contract: err == nil ==> n == len(b); violated
	if len(b) < 2 {
		return 0, ErrShort
	}
	return len(b) - 1, nil
}

func GoodErrNil(b []byte) (int, error) {
	if len(b) < 2 {
		return 0, ErrShort
	}
	return len(b), nil
}

func BadTime(t0 time.Time, d time.Duration) bool { // contract: result; fails when d <= 0
	return t0.Add(d).After(t0)
}

func GoodTime(t0 time.Time) bool {
	return t0.Add(time.Second).After(t0)
}

func callee(b []byte) byte { return b[3] } // requires len(b) >= 4

func BadPrecond(b []byte) byte {
	if len(b) < 3 {
		return 0
	}
	return callee(b)
}

func GoodPrecond(b []byte) byte {
	if len(b) < 4 {
		return 0
	}
	return callee(b)
}

func BadQuantPost(b []byte) { // contract: all bytes zero afterwards; only the first is cleared
	if len(b) > 0 {
		b[0] = 0
	}
}

func GoodQuantPost(b []byte) {
	for i := range b {
		b[i] = 0
	}
}

func BadStringSlice(s string, n int) string { return s[:n] }

func GoodStringSlice(s string, n int) string {
	if n < 0 || n > len(s) {
		return ""
	}
	return s[:n]
}

func BadAppendAlias(a []byte) byte { // contract claims a[0] unchanged although append may write in place... and b[0]=9 aliases
	b := append(a[:0], 9)
	_ = b
	if len(a) > 0 {
		return a[0]
	}
	return 0
}

func BadExplicitPanic(x int) int {
	if x == 42 {
		panic("boom")
	}
	return x
}

func GoodExplicitPanic(x int) int { // requires x != 42
	if x == 42 {
		panic("boom")
	}
	return x
}

// the model of rand.Read writes the byte heap; a claim that the buffer is unchanged must fail
func BadByteAlias(b []byte) byte {
	if len(b) == 0 {
		return 0
	}
	b[0] = 7
	rand.Read(b)
	return b[0]
}

// ---- maps keyed by small byte arrays, with struct values, kept in step (credential-manager shape)

type H4 [4]byte

type KCfg struct {
	Name string
	K    int
}

type KStore struct{ ulm map[H4]KCfg }

type KMgr struct {
	cache map[H4]KCfg
	users map[string]*KUser
	tcp   *KStore
}

type KUser struct{ hash H4 }

func (m *KMgr) GoodMirrorAdd(h H4, c KCfg) {
	m.cache[h] = c
	if m.tcp != nil {
		m.tcp.ulm[h] = c
	}
}

func (m *KMgr) BadMirrorAdd(h H4, c KCfg) {
	m.cache[h] = c
	if m.tcp != nil {
		c.Name = "x"
		m.tcp.ulm[h] = c
	}
}

func (m *KMgr) GoodBijAdd(name string, h H4) bool {
	if m.users[name] != nil {
		return false
	}
	if _, ok := m.cache[h]; ok {
		return false
	}
	u := &KUser{hash: h}
	m.users[name] = u
	m.cache[h] = KCfg{Name: name}
	return true
}

func (m *KMgr) BadBijAdd(name string, h H4) bool {
	if m.users[name] != nil {
		return false
	}
	u := &KUser{hash: h}
	m.users[name] = u
	m.cache[h] = KCfg{Name: name}
	return true
}

func (m *KMgr) GoodBijDel(name string) bool {
	u := m.users[name]
	if u == nil {
		return false
	}
	delete(m.users, name)
	delete(m.cache, u.hash)
	return true
}

// a write to a map with struct values must be visible to the next read
func BadStructMapWrite(m map[int]KCfg, k int) string {
	m[k] = KCfg{Name: "x"}
	return m[k].Name
}

func GoodStructMapWrite(m map[int]KCfg, k int) string {
	m[k] = KCfg{Name: "x", K: 3}
	return m[k].Name
}

// ---- ghost clock: a time is "current" only if nothing that may block ran since it was read

type blocker interface{ Wait() }

func useTime(t time.Time) bool { return t.IsZero() }

func GoodClock(b blocker) bool {
	b.Wait()
	now := time.Now()
	return useTime(now)
}

func BadClock(b blocker) bool {
	now := time.Now()
	b.Wait()
	return useTime(now)
}

// ---- calls through function values resolved by a dyncall clause

func double(x int) int { return 2 * x }
func triple(x int) int { return 3 * x }

type FnHolder struct{ f func(int) int }

func (h *FnHolder) GoodDyn(x int) int { return h.f(x) }
func (h *FnHolder) BadDyn(x int) int  { return h.f(x) }

// ---- non-escaping locals survive a call that may modify everything; escaped ones do not

type opaqueCaller interface{ Do() }

type pair struct{ a, b int }

var sink *pair

func GoodPrivateLocal(o opaqueCaller, x int) int {
	var p pair
	p.a = x
	q := &p.b
	*q = 7
	o.Do()
	return p.a + p.b
}

func BadEscapedLocal(o opaqueCaller, x int) int {
	var p pair
	p.a = x
	sink = &p
	o.Do()
	return p.a
}

// ---- a callee's writes to objects it allocates itself do not disturb the caller's objects of that type

func makePair(x int) pair {
	var q pair
	q.a = x
	q.b = x + 1
	return q
}

//go:noinline
func GoodFreshWrites(p *pair, x int) int {
	p.a = 5
	r := makePairNoContract(x)
	return p.a + r.a - r.a
}

func makePairNoContract(x int) *pair {
	q := &pair{}
	q.a = x
	return q
}

func BadSharedWrite(p *pair, q *pair) int {
	p.a = 5
	clobber(q)
	return p.a
}

func clobber(q *pair) { q.a = 9 }

// ---- immutable: an object that existed at the head of the iteration must not be written

type published struct{ v int }

type Holder struct{ cur *published }

func (h *Holder) GoodRepublish(xs []int) {
	for _, x := range xs {
		p := &published{}
		p.v = x
		h.cur = p
	}
}

func (h *Holder) BadOverwrite(xs []int) {
	for _, x := range xs {
		if h.cur != nil {
			h.cur.v = x
			continue
		}
		p := &published{}
		p.v = x
		h.cur = p
	}
}

// ---- a callee that stores a freshly allocated object into a location it may modify must not make the
// caller's continuation vacuous

type boxHolder struct{ p *pair }

func fillBox(h *boxHolder) { h.p = &pair{a: 1} }

func BadAfterFreshStore(h *BoxHolder) int {
	fillBox((*boxHolder)(h))
	return 1
}

type BoxHolder boxHolder

func GoodAfterFreshStore(h *BoxHolder, q *pair) int {
	q.a = 7
	fillBox((*boxHolder)(h))
	h.p.a = 9
	return q.a
}

// named types sharing one underlying struct share memory
func BadNamedAlias(h *BoxHolder) *pair {
	(*boxHolder)(h).p = nil
	return h.p
}

// ---- a map made and used only inside the function keeps its contents across an unknown call

func GoodPrivateMap(o opaqueCaller, k string) int {
	m := make(map[string]int)
	m[k] = 3
	o.Do()
	return m[k]
}

var mapSink map[string]int

func BadEscapedMap(o opaqueCaller, k string) int {
	m := make(map[string]int)
	m[k] = 3
	mapSink = m
	o.Do()
	return m[k]
}

// ---- a summarised callee that calls its function-valued parameter writes what the passed function writes

func applyFn(f func()) { f() }

type cellT struct{ v int }

func GoodParamCall(o *cellT) int {
	o.v = 1
	n := 0
	applyFn(func() { n++ })
	return o.v
}

func BadParamCall(o *cellT) int {
	o.v = 1
	applyFn(func() { o.v = 2 })
	return o.v
}

type closedIface interface {
	touch(c *cellT)
}

type implA struct{}
type implB struct{ w int }

func (implA) touch(c *cellT)   {}
func (b *implB) touch(c *cellT) { b.w = 7 }

// every implementation of the (module-only) interface leaves cellT alone
func GoodClosedIface(i closedIface, o *cellT) int {
	o.v = 1
	i.touch(o)
	return o.v
}

func BadClosedIface(i closedIface, o *cellT, b *implB) int {
	b.w = 1
	i.touch(o)
	return b.w
}

// ---- ghost receive counts and ghost assignment at a call: no job taken from the queue is dropped

type saver struct {
	q chan struct{}
	n int
}

func (s *saver) flush() { s.n++ }

func (s *saver) GoodDrain(done <-chan struct{}) {
	for {
		select {
		case <-s.q:
		case <-done:
			return
		}
		s.flush()
	}
}

func (s *saver) BadDrain(done <-chan struct{}) {
	for {
		select {
		case <-s.q:
		case <-done:
			return
		}
		select {
		case <-done:
			return // the job just taken is lost
		default:
		}
		s.flush()
	}
}

// ---- a closure's contract speaks about the captured variable's value

func GoodCaptured(o *cellT) func() {
	c := o
	return func() { c.v = 5 }
}

// selftest-extra: selftest.GoodCaptured$1
// selftest-extra: selftest.mkCapturedBad$1

func mkCapturedBad(o *cellT, p *cellT) func() {
	c := o
	return func() { c = p; c.v = 5 }
}

// ---- a constructor called by contract ("modifies nothing", fresh result with a fresh field): the caller's
// continuation must stay reachable (reference facts of old heap versions do not apply to new locations)

type box2 struct{ p *cellT }

func newBox2() *box2 { return &box2{p: &cellT{}} }

func BadAfterFreshCtor() int {
	b := newBox2()
	b.p.v = 3
	return 1
}

func GoodAfterFreshCtor() int {
	b := newBox2()
	b.p.v = 3
	return b.p.v
}
