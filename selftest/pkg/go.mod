module selftest

go 1.26
