//go:build verif

package selftest

//@ func BadEnsuresWrong
//@   ensures result >= a

//@ func GoodEnsuresWrap
//@   ensures result == a + b

//@ func BadLoopSum
//@   ensures result == len(xs)
//@   loop 0 invariant 0 <= i

//@ func GoodLoopCount
//@   ensures result == len(xs)
//@   loop 0 invariant 0 <= i && i <= len(xs) && s == i

//@ func BadLoopInvariantNotPreserved
//@   requires n >= 0 && n < 1000
//@   ensures result == n
//@   loop 0 invariant 0 <= i && i <= n && s == i

//@ func (*Ring).BadModifies
//@   modifies r.mask

//@ func (*Ring).GoodModifies
//@   modifies r.n
//@   ensures r.n == i

//@ func (*Ring).BadFrameViaCallee
//@   modifies r.mask

//@ func (*Ring).BadClear
//@   requires len(r.buf) >= 1 && uint64(len(r.buf)) & (uint64(len(r.buf)) - 1) == 0 && r.mask == uint64(len(r.buf)) - 1

//@ func (*Ring).GoodClear
//@   requires len(r.buf) >= 1 && uint64(len(r.buf)) & (uint64(len(r.buf)) - 1) == 0 && r.mask == uint64(len(r.buf)) - 1
//@   modifies r.buf[*]
//@   ensures r.buf[i & r.mask] == 0

//@ func BadErrNil
//@   ensures isnil(result1) ==> result0 == len(b)

//@ func GoodErrNil
//@   ensures isnil(result1) ==> result0 == len(b)
//@   ensures !isnil(result1) <==> len(b) < 2

//@ func BadTime
//@   ensures result

//@ func GoodTime
//@   ensures result

//@ func callee
//@   requires len(b) >= 4

//@ func BadQuantPost
//@   modifies b[0:len(b)]
//@   ensures forall i int :: 0 <= i && i < len(b) ==> b[i] == 0

//@ func GoodQuantPost
//@   modifies b[0:len(b)]
//@   ensures forall i int :: 0 <= i && i < len(b) ==> b[i] == 0
//@   loop 0 modifies b[0:len(b)]
//@   loop 0 invariant -1 <= rangeindex && rangeindex < len(b) || (rangeindex == -1 && len(b) == 0)
//@   loop 0 invariant forall j int :: 0 <= j && j <= rangeindex ==> b[j] == 0

//@ func BadAppendAlias
//@   ensures len(a) > 0 ==> result == old(a[0])

//@ func GoodExplicitPanic
//@   requires x != 42

//@ func BadByteAlias
//@   ensures len(b) > 0 ==> result == 7

//@ pure kSame(a map[H4]KCfg, b map[H4]KCfg) bool = forall h H4 :: has(a, h) == has(b, h) && (has(a, h) ==> a[h].Name == b[h].Name)
//@ pure kProd(m *KMgr) bool = !isnil(m.cache) && (!isnil(m.tcp) ==> !isnil(m.tcp.ulm) && kSame(m.tcp.ulm, m.cache))
//@ pure kUsers(m *KMgr) bool = !isnil(m.users) && !isnil(m.cache) && (forall u string :: has(m.users, u) ==> !isnil(m.users[u]) && has(m.cache, m.users[u].hash) && m.cache[m.users[u].hash].Name == u)
//@ pure kHashes(m *KMgr) bool = forall h H4 :: has(m.cache, h) ==> has(m.users, m.cache[h].Name) && m.users[m.cache[h].Name].hash == h

//@ func (*KMgr).GoodMirrorAdd
//@   requires !isnil(m) && kProd(m)
//@   ensures kProd(m)

//@ func (*KMgr).BadMirrorAdd
//@   requires !isnil(m) && kProd(m)
//@   ensures kProd(m)

//@ func (*KMgr).GoodBijAdd
//@   requires !isnil(m) && kUsers(m) && kHashes(m)
//@   ensures kUsers(m)
//@   ensures kHashes(m)

//@ func (*KMgr).BadBijAdd
//@   requires !isnil(m) && kUsers(m) && kHashes(m)
//@   ensures kUsers(m)
//@   ensures kHashes(m)

//@ func (*KMgr).GoodBijDel
//@   requires !isnil(m) && kUsers(m) && kHashes(m)
//@   ensures kUsers(m)
//@   ensures kHashes(m)

//@ func BadStructMapWrite
//@   requires !isnil(m)
//@   ensures result == old(m[k].Name)

//@ func GoodStructMapWrite
//@   requires !isnil(m)
//@   ensures result == "x" && m[k].K == 3

//@ func useTime
//@   nonblocking
//@   modifies nothing

//@ func GoodClock
//@   callsite useTime: arg0 == clocknow()

//@ func BadClock
//@   callsite useTime: arg0 == clocknow()

//@ func double
//@   modifies nothing
//@   ensures result == 2 * x

//@ func triple
//@   modifies nothing
//@   ensures result == 3 * x

//@ func (*FnHolder).GoodDyn
//@   requires x >= 0 && x < 1000 && (h.f == double || h.f == triple)
//@   dyncall double, triple
//@   ensures result >= 2 * x

//@ func (*FnHolder).BadDyn
//@   requires x >= 0 && x < 1000
//@   dyncall double, triple
//@   ensures result >= 2 * x

//@ func GoodPrivateLocal
//@   requires x < 1000 && x > -1000
//@   ensures result == x + 7

//@ func BadEscapedLocal
//@   ensures result == x

//@ func makePairNoContract
//@   noinline

//@ func clobber
//@   noinline

//@ func GoodFreshWrites
//@   requires !isnil(p)
//@   ensures result == 5

//@ func BadSharedWrite
//@   requires !isnil(p) && !isnil(q)
//@   ensures result == 5

//@ func (*Holder).GoodRepublish
//@   requires !isnil(h)
//@   immutable published

//@ func (*Holder).BadOverwrite
//@   requires !isnil(h)
//@   immutable published

//@ func fillBox
//@   trusted
//@   modifies h.p
//@   ensures !isnil(h.p) && fresh(h.p)

//@ func BadAfterFreshStore
//@   requires !isnil(h)
//@   ensures result == 2

//@ func GoodAfterFreshStore
//@   requires !isnil(h) && !isnil(q)
//@   ensures result == 7

//@ func BadNamedAlias
//@   requires !isnil(h)
//@   ensures result == old(h.p)

//@ func GoodPrivateMap
//@   ensures result == 3

//@ func BadEscapedMap
//@   ensures result == 3

//@ func applyFn
//@   noinline

//@ func GoodParamCall
//@   requires !isnil(o)
//@   ensures result == 1

//@ func BadParamCall
//@   requires !isnil(o)
//@   ensures result == 1

//@ func GoodClosedIface
//@   requires !isnil(o) && !isnil(i)
//@   ensures result == 1

//@ func BadClosedIface
//@   requires !isnil(o) && !isnil(i) && !isnil(b)
//@   ensures result == 1

//@ ghost stFlushedAt int

//@ func (*saver).flush
//@   noinline

//@ func (*saver).GoodDrain
//@   requires !isnil(s) && ptrint(s.q) != ptrint(done) && $stFlushedAt == recvcount(s.q)
//@   loop 0 invariant $stFlushedAt == recvcount(s.q)
//@   callsite flush: $stFlushedAt := recvcount(s.q)
//@   ensures $stFlushedAt == recvcount(s.q)

//@ func (*saver).BadDrain
//@   requires !isnil(s) && ptrint(s.q) != ptrint(done) && $stFlushedAt == recvcount(s.q)
//@   loop 0 invariant $stFlushedAt == recvcount(s.q)
//@   callsite flush: $stFlushedAt := recvcount(s.q)
//@   ensures $stFlushedAt == recvcount(s.q)

//@ func GoodCaptured$1
//@   requires !isnil(c)
//@   ensures c.v == 5

//@ func GoodCaptured
//@   requires !isnil(o)

// the captured variable is reassigned inside the closure: its old value's field is not what was written
//@ func mkCapturedBad$1
//@   requires !isnil(c) && !isnil(p)
//@   ensures old(c).v == 5

//@ func newBox2
//@   modifies nothing
//@   ensures fresh(result) && fresh(result.p)

// would be "proved" if the path after the constructor were contradictory
//@ func BadAfterFreshCtor
//@   ensures result == 2

//@ func GoodAfterFreshCtor
//@   ensures result == 3
