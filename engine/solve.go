package main

import (
	"bufio"
	"context"
	"fmt"
	"io"
	"os"
	"os/exec"
	"path/filepath"
	"strings"
	"sync"
	"time"
)

// ---------------------------------------------------------------------------
// SMT back ends: z3-new (5.x), z3 (4.8.12), cvc5; raced per query.
// ---------------------------------------------------------------------------

type SolverAnswer struct {
	Status string // "unsat", "sat", "unknown", "timeout", "error"
	Solver string
	TimeS  float64
	Output string
}

type solverDef struct {
	name string
	args func(file string, timeoutMs int) []string
}

var solverDefs = []solverDef{
	{"cvc5", func(f string, ms int) []string {
		return []string{"cvc5", "--lang=smt2", fmt.Sprintf("--tlimit=%d", ms), f}
	}},
	{"z3-new", func(f string, ms int) []string { return []string{"z3-new", fmt.Sprintf("-t:%d", ms), f} }},
	// cvc5 with its exact bit-vector-to-integer translation (modular arithmetic made explicit): decides
	// 64-bit linear-arithmetic goals that bit-blasting cannot
	{"cvc5-int", func(f string, ms int) []string {
		return []string{"cvc5", "--lang=smt2", "--solve-bv-as-int=sum", fmt.Sprintf("--tlimit=%d", ms), f}
	}},
	{"z3", func(f string, ms int) []string { return []string{"z3", fmt.Sprintf("-t:%d", ms), f} }},
}

var solverSem = make(chan struct{}, 16)

// cpuSeconds reads utime+stime of a process from /proc (clock ticks are 100/s on Linux).
func cpuSeconds(pid int) float64 {
	b, err := os.ReadFile(fmt.Sprintf("/proc/%d/stat", pid))
	if err != nil {
		return -1
	}
	s := string(b)
	i := strings.LastIndex(s, ")")
	if i < 0 {
		return -1
	}
	f := strings.Fields(s[i+1:])
	if len(f) < 13 {
		return -1
	}
	var ut, st float64
	fmt.Sscanf(f[11], "%f", &ut)
	fmt.Sscanf(f[12], "%f", &st)
	return (ut + st) / 100.0
}

// runOne runs one solver. The budget is CPU time of the solver process (so a
// loaded machine does not turn into spurious timeouts); wall time is capped at
// 12x the budget.
func runOne(ctx context.Context, sd solverDef, file string, timeoutMs int) SolverAnswer {
	solverSem <- struct{}{}
	defer func() { <-solverSem }()
	if ctx.Err() != nil {
		return SolverAnswer{Status: "cancelled", Solver: sd.name}
	}
	wallCap := time.Duration(timeoutMs) * 12 * time.Millisecond
	args := sd.args(file, int(wallCap/time.Millisecond))
	cmd := exec.Command(args[0], args[1:]...)
	var outb strings.Builder
	cmd.Stdout = &outb
	cmd.Stderr = &outb
	start := time.Now()
	if err := cmd.Start(); err != nil {
		return SolverAnswer{Status: "error", Solver: sd.name, Output: err.Error()}
	}
	done := make(chan struct{})
	go func() { cmd.Wait(); close(done) }()
	budget := float64(timeoutMs) / 1000.0
	cpu := 0.0
	killed := ""
	tick := time.NewTicker(50 * time.Millisecond)
	defer tick.Stop()
loop:
	for {
		select {
		case <-done:
			break loop
		case <-ctx.Done():
			cmd.Process.Kill()
			<-done
			return SolverAnswer{Status: "cancelled", Solver: sd.name}
		case <-tick.C:
			if c := cpuSeconds(cmd.Process.Pid); c >= 0 {
				cpu = c
			}
			if cpu > budget {
				killed = "cpu"
			} else if time.Since(start) > wallCap {
				killed = "wall"
			}
			if killed != "" {
				cmd.Process.Kill()
				<-done
				break loop
			}
		}
	}
	if cmd.ProcessState != nil {
		cpu = (cmd.ProcessState.UserTime() + cmd.ProcessState.SystemTime()).Seconds()
	}
	s := strings.TrimSpace(outb.String())
	first := s
	if i := strings.Index(s, "\n"); i >= 0 {
		first = strings.TrimSpace(s[:i])
	}
	ans := SolverAnswer{Solver: sd.name, TimeS: cpu, Output: s}
	switch {
	case killed != "":
		ans.Status = "timeout"
		ans.Output = "killed after " + killed + " budget"
	case first == "unsat":
		ans.Status = "unsat"
	case first == "sat":
		ans.Status = "sat"
	case first == "unknown" || strings.Contains(first, "timeout") || strings.Contains(first, "interrupted"):
		ans.Status = "unknown"
	default:
		ans.Status = "error"
	}
	return ans
}

// race runs all back ends on file; first sat/unsat wins.
// If needAgree > 1, waits until that many back ends gave the same definitive answer
// (or all finished).
func race(file string, timeoutMs int, needAgree int, only []string) (SolverAnswer, []SolverAnswer) {
	ctx, cancel := context.WithCancel(context.Background())
	defer cancel()
	ch := make(chan SolverAnswer, len(solverDefs))
	n := 0
	for _, sd := range solverDefs {
		if len(only) > 0 {
			ok := false
			for _, o := range only {
				if o == sd.name {
					ok = true
				}
			}
			if !ok {
				continue
			}
		}
		// staggered start: most obligations are decided by the first back end within a fraction of a
		// second; the others only start if it has not answered yet
		delay := time.Duration(n) * 200 * time.Millisecond
		if needAgree > 1 {
			delay = 0
		}
		n++
		go func(sd solverDef, delay time.Duration) {
			if delay > 0 {
				select {
				case <-time.After(delay):
				case <-ctx.Done():
					ch <- SolverAnswer{Status: "cancelled", Solver: sd.name}
					return
				}
			}
			ch <- runOne(ctx, sd, file, timeoutMs)
		}(sd, delay)
	}
	var all []SolverAnswer
	var best SolverAnswer
	counts := map[string]int{}
	start := time.Now()
	var grace <-chan time.Time
	for i := 0; i < n; i++ {
		var a SolverAnswer
		select {
		case a = <-ch:
		case <-grace:
			// a second back end was asked to agree (thorough tier) and has not answered within the grace
			// period after the first decisive answer: the answer stands with the agreement it has
			cancel()
			return best, all
		}
		if a.Status == "cancelled" {
			continue
		}
		all = append(all, a)
		if a.Status == "sat" || a.Status == "unsat" {
			counts[a.Status]++
			if best.Status == "" || best.Status != "sat" && best.Status != "unsat" {
				best = a
			}
			if needAgree > 1 && grace == nil {
				g := 3 * time.Since(start)
				if g < 5*time.Second {
					g = 5 * time.Second
				}
				grace = time.After(g)
			}
			if counts[a.Status] >= needAgree {
				best = a
				for _, x := range all {
					if x.Status == a.Status && (x.Solver == "z3-new" || best.Solver == "") {
						best = x
					}
				}
				cancel()
				break
			}
		} else if best.Status == "" {
			best = a
		}
	}
	if best.Status != "sat" && best.Status != "unsat" {
		// prefer "timeout" over "error" for reporting
		for _, a := range all {
			if a.Status == "timeout" {
				best = a
			}
		}
		for _, a := range all {
			if a.Status == "unknown" {
				best = a
			}
		}
	}
	return best, all
}

// ------------------------------------------------------------------ interactive session (models)

type session struct {
	cmd *exec.Cmd
	in  io.WriteCloser
	out *bufio.Reader
}

func startZ3(bin string) (*session, error) {
	cmd := exec.Command(bin, "-in")
	in, err := cmd.StdinPipe()
	if err != nil {
		return nil, err
	}
	out, err := cmd.StdoutPipe()
	if err != nil {
		return nil, err
	}
	cmd.Stderr = cmd.Stdout
	if err := cmd.Start(); err != nil {
		return nil, err
	}
	return &session{cmd, in, bufio.NewReader(out)}, nil
}

func (s *session) send(text string) { io.WriteString(s.in, text+"\n") }

// readSexp reads one balanced s-expression (or a bare word line).
func (s *session) readSexp(timeout time.Duration) (string, error) {
	type res struct {
		s   string
		err error
	}
	ch := make(chan res, 1)
	go func() {
		var sb strings.Builder
		depth := 0
		started := false
		for {
			r, _, err := s.out.ReadRune()
			if err != nil {
				ch <- res{sb.String(), err}
				return
			}
			if !started {
				if r == ' ' || r == '\n' || r == '\t' || r == '\r' {
					continue
				}
				started = true
			}
			sb.WriteRune(r)
			switch r {
			case '(':
				depth++
			case ')':
				depth--
				if depth == 0 {
					ch <- res{sb.String(), nil}
					return
				}
			case '\n':
				if depth == 0 {
					ch <- res{strings.TrimSpace(sb.String()), nil}
					return
				}
			}
		}
	}()
	select {
	case r := <-ch:
		return r.s, r.err
	case <-time.After(timeout):
		s.cmd.Process.Kill()
		return "", fmt.Errorf("solver read timeout")
	}
}

func (s *session) close() {
	s.in.Close()
	s.cmd.Process.Kill()
	s.cmd.Wait()
}

// ------------------------------------------------------------------ file helpers

var scratchMu sync.Mutex
var scratchN int

func scratchFile(dir, hint string) string {
	scratchMu.Lock()
	defer scratchMu.Unlock()
	scratchN++
	clean := strings.Map(func(r rune) rune {
		if r >= 'a' && r <= 'z' || r >= 'A' && r <= 'Z' || r >= '0' && r <= '9' || r == '_' || r == '-' {
			return r
		}
		return '_'
	}, hint)
	if len(clean) > 80 {
		clean = clean[len(clean)-80:]
	}
	os.MkdirAll(dir, 0o755)
	return filepath.Join(dir, fmt.Sprintf("%04d_%s.smt2", scratchN, clean))
}
