package main

import (
	"go/token"
	"fmt"
	"go/types"
	"os"
	"sort"
	"strings"

	"golang.org/x/tools/go/packages"
	"golang.org/x/tools/go/ssa"
	"golang.org/x/tools/go/ssa/ssautil"
)

// ---------------------------------------------------------------------------
// Program: the loaded repository, its SSA, the contracts, static mod-sets
// ---------------------------------------------------------------------------

type Program struct {
	rtTypes        []types.Type
	W              *World
	RepoDir        string
	ModPath        string
	pkgs           []*packages.Package
	prog           *ssa.Program
	Specs          *Specs
	funcs          map[string]*ssa.Function // by ssa String()
	byName         map[string]*types.Package
	byPath         map[string]*types.Package
	modSets        map[*ssa.Function]*modSet
	modBusy        map[*ssa.Function]bool
	mutableGlobals map[string]bool
	errGlobals     map[string]int // immutable globals initialised by errors.New / fmt.Errorf: unique id
	globalsByObj   map[types.Object]*ssa.Global
	NilChecks      bool
	specErrs       []string
	LoadErrs       []string
}

func (p *Program) specError(format string, a ...any) {
	p.specErrs = append(p.specErrs, fmt.Sprintf(format, a...))
}

func LoadProgram(repo string, tags string, specsDir string) (*Program, error) {
	cfg := &packages.Config{Mode: packages.LoadAllSyntax | packages.NeedModule, Dir: repo, BuildFlags: []string{"-tags=" + tags}, Env: append(os.Environ(), "GOFLAGS=-mod=mod", "GOPROXY=off")}
	pkgs, err := packages.Load(cfg, "./...")
	if err != nil {
		return nil, err
	}
	p := &Program{W: newWorld(), RepoDir: repo, pkgs: pkgs, funcs: map[string]*ssa.Function{}, byName: map[string]*types.Package{}, byPath: map[string]*types.Package{},
		modSets: map[*ssa.Function]*modSet{}, modBusy: map[*ssa.Function]bool{}, mutableGlobals: map[string]bool{}, globalsByObj: map[types.Object]*ssa.Global{}}
	for _, pk := range pkgs {
		for _, e := range pk.Errors {
			p.LoadErrs = append(p.LoadErrs, e.Error())
		}
		if pk.Module != nil && pk.Module.Main {
			p.ModPath = pk.Module.Path
		}
	}
	if len(p.LoadErrs) > 0 {
		return p, fmt.Errorf("package load errors: %s", strings.Join(p.LoadErrs, "; "))
	}
	prog, _ := ssautil.AllPackages(pkgs, ssa.InstantiateGenerics|ssa.GlobalDebug)
	prog.Build()
	p.prog = prog
	for fn := range ssautil.AllFunctions(prog) {
		p.funcs[fn.String()] = fn
	}
	// AllFunctions leaves out the methods of unexported types that nothing calls or boxes: the module's own
	// are all wanted (a contract may be written on any of them)
	var addFn func(fn *ssa.Function)
	addFn = func(fn *ssa.Function) {
		if fn == nil || p.funcs[fn.String()] != nil {
			return
		}
		p.funcs[fn.String()] = fn
		for _, af := range fn.AnonFuncs {
			addFn(af)
		}
	}
	for _, sp := range prog.AllPackages() {
		if sp.Pkg == nil || p.ModPath == "" || !strings.HasPrefix(sp.Pkg.Path(), p.ModPath) {
			continue
		}
		for _, m := range sp.Members {
			tm, ok := m.(*ssa.Type)
			if !ok {
				continue
			}
			n, ok := tm.Type().(*types.Named)
			if !ok || n.TypeParams().Len() > 0 || types.IsInterface(n) {
				continue
			}
			for _, t := range []types.Type{n, types.NewPointer(n)} {
				ms := prog.MethodSets.MethodSet(t)
				for i := 0; i < ms.Len(); i++ {
					addFn(prog.MethodValue(ms.At(i)))
				}
			}
		}
	}
	for _, sp := range prog.AllPackages() {
		p.byPath[sp.Pkg.Path()] = sp.Pkg
		if _, dup := p.byName[sp.Pkg.Name()]; !dup || strings.HasPrefix(sp.Pkg.Path(), p.ModPath) {
			p.byName[sp.Pkg.Name()] = sp.Pkg
		}
		for _, m := range sp.Members {
			if g, ok := m.(*ssa.Global); ok && g.Object() != nil {
				p.globalsByObj[g.Object()] = g
			}
		}
	}
	p.findMutableGlobals()
	p.Specs = LoadSpecs(repo, p.ModPath, specsDir)
	return p, nil
}

func (p *Program) pkgByName(name string) *types.Package { return p.byName[name] }

// timeType: time.Time, if package time is loaded
func (p *Program) timeType() types.Type {
	if tp := p.byPath["time"]; tp != nil {
		if o := tp.Scope().Lookup("Time"); o != nil {
			return o.Type()
		}
	}
	return nil
}
func (p *Program) typesPkg(path string) *types.Package  { return p.byPath[path] }
func (p *Program) globalVar(o types.Object) *ssa.Global { return p.globalsByObj[o] }

func (p *Program) inModule(fn *ssa.Function) bool {
	if fn.Pkg != nil {
		return strings.HasPrefix(fn.Pkg.Pkg.Path(), p.ModPath)
	}
	if o := fn.Origin(); o != nil && o.Pkg != nil {
		return strings.HasPrefix(o.Pkg.Pkg.Path(), p.ModPath)
	}
	if fn.Parent() != nil {
		return p.inModule(fn.Parent())
	}
	// synthetic wrappers
	return strings.Contains(fn.String(), p.ModPath)
}

func (p *Program) isModuleType(t types.Type) bool {
	if n, ok := types.Unalias(t).(*types.Named); ok && n.Obj().Pkg() != nil {
		return strings.HasPrefix(n.Obj().Pkg().Path(), p.ModPath)
	}
	return false
}

func (p *Program) contractFor(fn *ssa.Function) *Contract {
	if fn == nil {
		return nil
	}
	if c := p.Specs.Contracts[fn.String()]; c != nil {
		return c
	}
	return p.Specs.Contracts[funcKey(fn)]
}

func (p *Program) pureFn(pkg *types.Package, name string) *PureFn {
	if pkg != nil {
		if pf := p.Specs.Pures[pkg.Path()+"."+name]; pf != nil {
			return pf
		}
	}
	// unique bare name across packages
	var found *PureFn
	for _, pf := range p.Specs.Pures {
		if pf.Name == name {
			if found != nil {
				return nil
			}
			found = pf
		}
	}
	return found
}

func (p *Program) pureFnIn(path, name string) *PureFn { return p.Specs.Pures[path+"."+name] }

// inlinable stdlib packages (pure Go, small)
var inlineStd = map[string]bool{
	"encoding/binary": true, "bytes": false, "slices": true, "cmp": true, "math/bits": false, "errors": false,
}

func (p *Program) canInline(fn *ssa.Function) bool {
	if len(fn.Blocks) == 0 {
		return false
	}
	if len(fn.Blocks) > 400 {
		return false
	}
	if p.inModule(fn) {
		return true
	}
	if fn.Pkg != nil && inlineStd[fn.Pkg.Pkg.Path()] {
		return true
	}
	if o := fn.Origin(); o != nil && o.Pkg != nil && inlineStd[o.Pkg.Pkg.Path()] {
		return true
	}
	return false
}

// ------------------------------------------------------------------ mutable globals

func rootGlobal(v ssa.Value) *ssa.Global {
	for {
		switch x := v.(type) {
		case *ssa.Global:
			return x
		case *ssa.FieldAddr:
			v = x.X
		case *ssa.IndexAddr:
			v = x.X
		default:
			return nil
		}
	}
}

func (p *Program) findMutableGlobals() {
	p.errGlobals = map[string]int{}
	var names []string
	for _, fn := range p.funcs {
		isInit := fn.Name() == "init" && fn.Parent() == nil || strings.HasPrefix(fn.Name(), "init#")
		if !isInit {
			continue
		}
		for _, b := range fn.Blocks {
			for _, ins := range b.Instrs {
				st, ok := ins.(*ssa.Store)
				if !ok {
					continue
				}
				gl, ok := st.Addr.(*ssa.Global)
				if !ok {
					continue
				}
				if c, ok := st.Val.(*ssa.Call); ok {
					if callee := c.Call.StaticCallee(); callee != nil {
						switch callee.String() {
						case "errors.New", "fmt.Errorf":
							names = append(names, gl.String())
						}
					}
				}
			}
		}
	}
	sort.Strings(names)
	for i, n := range names {
		p.errGlobals[n] = i + 1
	}
	for _, fn := range p.funcs {
		isInit := fn.Name() == "init" && fn.Parent() == nil || strings.HasPrefix(fn.Name(), "init#")
		for _, b := range fn.Blocks {
			for _, ins := range b.Instrs {
				switch x := ins.(type) {
				case *ssa.Store:
					if g := rootGlobal(x.Addr); g != nil && !isInit {
						p.mutableGlobals[g.String()] = true
					}
					// address of a global stored somewhere: escapes
					if g := rootGlobal(x.Val); g != nil {
						p.mutableGlobals[g.String()] = true
					}
				case ssa.CallInstruction:
					c := x.Common()
					for _, a := range c.Args {
						if g := rootGlobal(a); g != nil {
							// passing &global to a call: it may be written (e.g. atomic ops, sync.Once)
							p.mutableGlobals[g.String()] = true
						}
					}
				}
			}
		}
	}
}

// ------------------------------------------------------------------ static mod-sets

type modSet struct {
	all   bool
	names map[string]Sort
	// the summarised function calls its own function-valued parameter k: whoever uses the summary adds what
	// the function passed there writes (resolveParamCalls), or everything if it cannot tell
	paramCalls map[int]bool
}

func newModSet() *modSet { return &modSet{names: map[string]Sort{}} }

func (m *modSet) add(o *modSet) {
	if o.all {
		m.all = true
	}
	for k, v := range o.names {
		m.names[k] = v
	}
	// o.paramCalls is resolved by the caller of add, never copied blindly
}

// resolveParamCalls: ms is the summary of callee, used at a call whose ssa arguments are args (receiver
// first for methods, as in ssa). The functions passed for the parameters the callee calls are added; an
// argument that is the enclosing function's own parameter is passed on in outer.paramCalls.
func (p *Program) resolveParamCalls(out *modSet, ms *modSet, args []ssa.Value, outerFn *ssa.Function, depth int) {
	for k := range ms.paramCalls {
		if k >= len(args) {
			out.all = true
			return
		}
		switch a := args[k].(type) {
		case *ssa.MakeClosure:
			out.add(p.funcModSetDepth(a.Fn.(*ssa.Function), depth+1))
			if len(p.funcModSetDepth(a.Fn.(*ssa.Function), depth+1).paramCalls) > 0 {
				out.all = true
			}
		case *ssa.Function:
			out.add(p.funcModSetDepth(a, depth+1))
			if len(p.funcModSetDepth(a, depth+1).paramCalls) > 0 {
				out.all = true
			}
		case *ssa.Parameter:
			idx := -1
			if outerFn != nil {
				for i, pp := range outerFn.Params {
					if pp == a {
						idx = i
					}
				}
			}
			if idx < 0 {
				out.all = true
				return
			}
			if out.paramCalls == nil {
				out.paramCalls = map[int]bool{}
			}
			out.paramCalls[idx] = true
		default:
			out.all = true
			return
		}
	}
}

// typeHeapNames: heaps touched when a value of type t stored in family fam is written.
func (p *Program) typeHeapNames(t types.Type, fam string) *modSet {
	ms := newModSet()
	p.addTypeNames(ms, t, fam, 0)
	return ms
}

func (p *Program) addTypeNames(ms *modSet, t types.Type, fam string, depth int) {
	defer func() {
		if r := recover(); r != nil {
			if _, ok := r.(error); ok {
				ms.all = true
				return
			}
			panic(r)
		}
	}()
	if depth > 8 {
		ms.all = true
		return
	}
	switch kindOf(t) {
	case KEmpty:
	case KStruct:
		st := structOf(t)
		for i := 0; i < st.NumFields(); i++ {
			p.addTypeNames(ms, st.Field(i).Type(), fmt.Sprintf("F|%s|%d", structMemKey(t), i), depth+1)
		}
	case KArray:
		et := t.Underlying().(*types.Array).Elem()
		if elemTwoLevel(et) {
			ms.names[elemFam(et)] = arrSort(SBV64, arrSort(SBV64, p.W.scalarSort(et)))
		} else {
			p.addTypeNames(ms, et, "S|"+typeKey(et), depth+1)
		}
	default:
		global := strings.HasPrefix(fam, "G|")
		for _, l := range p.W.leaves(t) {
			if global {
				ms.names[fam+"#"+l.Path] = l.Sort
			} else {
				ms.names[fam+"#"+l.Path] = arrSort(SBV64, l.Sort)
			}
		}
	}
}

// addrNames: heaps a store through addr (pointee type t) may touch.
func (p *Program) addrNames(ms *modSet, addr ssa.Value, t types.Type) {
	switch x := addr.(type) {
	case *ssa.FieldAddr:
		st := x.X.Type().Underlying().(*types.Pointer).Elem()
		p.addTypeNames(ms, t, fmt.Sprintf("F|%s|%d", structMemKey(st), x.Field), 0)
	case *ssa.IndexAddr:
		if elemTwoLevel(t) {
			ms.names[elemFam(t)] = arrSort(SBV64, arrSort(SBV64, p.W.scalarSort(t)))
		} else {
			p.addTypeNames(ms, t, "S|"+typeKey(t), 0)
		}
	case *ssa.Global:
		p.addTypeNames(ms, t, "G|"+x.String(), 0)
	default:
		p.addTypeNames(ms, t, "C|"+typeKey(t), 0)
	}
}

func (p *Program) mapNames(ms *modSet, mt *types.Map) {
	defer func() {
		if r := recover(); r != nil {
			ms.all = true
		}
	}()
	if !isScalarType(mt.Key()) {
		ms.all = true
		return
	}
	ks := p.W.scalarSort(mt.Key())
	if n := packedKeyLen(mt.Key()); n > 0 {
		ks = Sort(fmt.Sprintf("(_ BitVec %d)", 8*n))
	}
	fd, fv, fl := mapFams(mt)
	ms.names[fd] = arrSort(SBV64, arrSort(ks, SBool))
	ms.names[fl] = arrSort(SBV64, SBV64)
	for _, l := range p.W.leaves(mt.Elem()) {
		ms.names[fv+"#"+l.Path] = arrSort(SBV64, arrSort(ks, l.Sort))
	}
}

func (p *Program) sliceElemNames(ms *modSet, st types.Type) {
	sl, ok := st.Underlying().(*types.Slice)
	if !ok {
		return
	}
	et := sl.Elem()
	if elemTwoLevel(et) {
		ms.names[elemFam(et)] = arrSort(SBV64, arrSort(SBV64, p.W.scalarSort(et)))
	} else {
		p.addTypeNames(ms, et, "S|"+typeKey(et), 0)
	}
}

// externalModSet: default frame of an external callee: elements of slice
// arguments, fields (shallow) of pointed-to structs.
func (p *Program) externalModSet(sig *types.Signature, args []*SVal, invoke bool) *modSet {
	ms := newModSet()
	add := func(t types.Type) {
		switch kindOf(t) {
		case KChan:
			// it may take values from a channel it is handed
			for k, v := range chanGhostNames() {
				ms.names[k] = v
			}
		case KSlice:
			p.sliceElemNames(ms, t)
		case KPtr:
			if pt, ok := t.Underlying().(*types.Pointer); ok {
				p.addTypeNames(ms, pt.Elem(), "C|"+typeKey(pt.Elem()), 0)
			}
		}
	}
	if sig.Recv() != nil {
		add(sig.Recv().Type())
	}
	for i := 0; i < sig.Params().Len(); i++ {
		add(sig.Params().At(i).Type())
	}
	for _, a := range args {
		if a != nil && a.T != nil {
			add(a.T)
		}
	}
	return ms
}

// rootAlloc: the Alloc a field/element address is derived from, if any.
func rootAlloc(v ssa.Value) *ssa.Alloc {
	for i := 0; i < 16; i++ {
		switch x := v.(type) {
		case *ssa.Alloc:
			return x
		case *ssa.FieldAddr:
			v = x.X
		case *ssa.IndexAddr:
			if _, ok := x.X.Type().Underlying().(*types.Pointer); !ok {
				return nil
			}
			v = x.X
		default:
			return nil
		}
	}
	return nil
}

// instrMods adds what ins may write to ms. Writes to objects that the summarised code itself allocates
// (freshAlloc) are left out: the code being summarised is the only one that can know anything about them,
// so they are invisible in the pre-state of whoever uses the summary.
func (p *Program) instrMods(ms *modSet, fn *ssa.Function, ins ssa.Instruction, depth int, freshAlloc func(*ssa.Alloc) bool) {
	switch x := ins.(type) {
	case *ssa.Store:
		if a := rootAlloc(x.Addr); a != nil && freshAlloc(a) {
			ms.names[allocHeap] = allocSort
			return
		}
		p.addrNames(ms, x.Addr, x.Addr.Type().Underlying().(*types.Pointer).Elem())
	case *ssa.Select:
		for k, v := range chanGhostNames() {
			ms.names[k] = v
		}
	case *ssa.UnOp:
		if x.Op == token.ARROW {
			for k, v := range chanGhostNames() {
				ms.names[k] = v
			}
		}
	case *ssa.MapUpdate:
		p.mapNames(ms, x.Map.Type().Underlying().(*types.Map))
	case *ssa.Alloc, *ssa.MakeSlice, *ssa.MakeMap, *ssa.MakeClosure, *ssa.MakeChan:
		ms.names[allocHeap] = allocSort
		if a, ok := x.(*ssa.Alloc); ok && !freshAlloc(a) {
			// zero-initialisation writes the object's heaps
			et := a.Type().(*types.Pointer).Elem()
			p.addTypeNames(ms, et, "C|"+typeKey(et), 0)
		}
		if m, ok := x.(*ssa.MakeSlice); ok {
			p.sliceElemNames(ms, m.Type())
		}
		if m, ok := x.(*ssa.MakeMap); ok {
			p.mapNames(ms, m.Type().Underlying().(*types.Map))
		}
	case *ssa.MakeInterface:
		ms.names[allocHeap] = allocSort
		if !isScalarKind(kindOf(x.X.Type())) || kindOf(x.X.Type()) == KString {
			p.addTypeNames(ms, x.X.Type(), "C|"+typeKey(x.X.Type()), 0)
		}
	case *ssa.Convert:
		if kindOf(x.Type()) == KSlice && kindOf(x.X.Type()) == KString {
			ms.names[allocHeap] = allocSort
			p.sliceElemNames(ms, x.Type())
		}
	case ssa.CallInstruction:
		c := x.Common()
		if _, isGo := x.(*ssa.Go); isGo {
			return
		}
		if b, ok := c.Value.(*ssa.Builtin); ok {
			switch b.Name() {
			case "append":
				ms.names[allocHeap] = allocSort
				p.sliceElemNames(ms, c.Args[0].Type())
			case "copy", "clear":
				if kindOf(c.Args[0].Type()) == KMap {
					p.mapNames(ms, c.Args[0].Type().Underlying().(*types.Map))
				} else {
					p.sliceElemNames(ms, c.Args[0].Type())
				}
			case "delete":
				p.mapNames(ms, c.Args[0].Type().Underlying().(*types.Map))
			}
			return
		}
		ms.names[allocHeap] = allocSort
		if c.IsInvoke() {
			key := invokeKey(c)
			if mm, ok := modelMods[key]; ok {
				mm(p, ms, c)
				return
			}
			if ct := p.Specs.Contracts[key]; p.isModuleType(c.Value.Type()) && (ct == nil || ct.Dispatch) {
				// an interface with a method whose signature names a type defined in this module can only be
				// implemented by the module's own types (nothing imports the main module): the call writes
				// what one of those implementations writes
				if cms := p.closedInvokeModSet(c, depth); cms != nil {
					ms.add(cms)
					return
				}
				if os.Getenv("GOVC_MODDEBUG") != "" {
					fmt.Fprintf(os.Stderr, "modset all: %s: %s\n", fn, ins)
				}
				ms.all = true
				return
			}
			ms.add(p.externalModSet(c.Signature(), nil, true))
			return
		}
		callee := c.StaticCallee()
		if callee == nil {
			if mc, ok := c.Value.(*ssa.MakeClosure); ok {
				callee = mc.Fn.(*ssa.Function)
			} else if pa, ok := c.Value.(*ssa.Parameter); ok && pa.Parent() == fn && len(fn.FreeVars) == 0 {
				for i, pp := range fn.Params {
					if pp == pa {
						if ms.paramCalls == nil {
							ms.paramCalls = map[int]bool{}
						}
						ms.paramCalls[i] = true
					}
				}
				// the called function's own parameters and results are not written by the call itself
				return
			} else {
				if os.Getenv("GOVC_MODDEBUG") != "" {
					fmt.Fprintf(os.Stderr, "modset all: %s: %s\n", fn, ins)
				}
				ms.all = true
				return
			}
		}
		key := funcKey(callee)
		if mm, ok := modelMods[key]; ok {
			mm(p, ms, c)
			return
		}
		if _, ok := models[key]; ok {
			return
		}
		if p.inModule(callee) && len(callee.Blocks) > 0 {
			if ct := p.contractFor(callee); ct != nil && ct.Trusted {
				ms.add(p.externalModSet(callee.Signature, nil, false))
				return
			}
			cms := p.funcModSetDepth(callee, depth+1)
			ms.add(cms)
			p.resolveParamCalls(ms, cms, c.Args, fn, depth)
			return
		}
		if p.canInline(callee) {
			cms := p.funcModSetDepth(callee, depth+1)
			ms.add(cms)
			p.resolveParamCalls(ms, cms, c.Args, fn, depth)
			return
		}
		ms.add(p.externalModSet(callee.Signature, nil, false))
	}
}

// closedInvokeModSet: what an interface method call may write when the interface can only be implemented by
// the module's own types, all of which are known: the union over the implementations. nil otherwise.
func (p *Program) closedInvokeModSet(c *ssa.CallCommon, depth int) *modSet {
	iface, ok := c.Value.Type().Underlying().(*types.Interface)
	if !ok || !p.closedInterface(iface) {
		return nil
	}
	ims := p.implementors(iface, c.Method.Name())
	if len(ims) == 0 || !p.implementorsComplete(iface, ims) {
		return nil
	}
	ms := newModSet()
	for _, im := range ims {
		ims := p.funcModSetDepth(im.Fn, depth+1)
		ms.add(ims)
		if len(ims.paramCalls) > 0 {
			return nil
		}
	}
	if ms.all {
		return nil
	}
	return ms
}

// implementorsComplete: every type that the program ever converts to an interface (ssa's runtime types:
// instantiations of generic types and function-local types included) and that implements iface is one of ims.
func (p *Program) implementorsComplete(iface *types.Interface, ims []implementor) bool {
	if p.rtTypes == nil {
		p.rtTypes = p.prog.RuntimeTypes()
	}
	for _, rt := range p.rtTypes {
		if types.IsInterface(rt) || !types.Implements(rt, iface) {
			continue
		}
		found := false
		for _, im := range ims {
			if types.Identical(im.T, rt) {
				found = true
				break
			}
			// *T is listed when T itself implements the interface only through the pointer; a value type T
			// whose pointer is listed (or the reverse) has the same method bodies
			if pt, ok := rt.(*types.Pointer); ok && types.Identical(im.T, pt.Elem()) {
				found = true
				break
			}
		}
		if !found {
			return false
		}
	}
	return true
}

// closedInterface: some method of iface mentions, in its signature, a named type declared in the module.
func (p *Program) closedInterface(iface *types.Interface) bool {
	var mentions func(t types.Type, d int) bool
	mentions = func(t types.Type, d int) bool {
		if d > 6 {
			return false
		}
		switch x := t.(type) {
		case *types.Named:
			if o := x.Obj(); o != nil && o.Pkg() != nil && strings.HasPrefix(o.Pkg().Path(), p.ModPath) {
				return true
			}
			return false
		case *types.Pointer:
			return mentions(x.Elem(), d+1)
		case *types.Slice:
			return mentions(x.Elem(), d+1)
		case *types.Array:
			return mentions(x.Elem(), d+1)
		case *types.Map:
			return mentions(x.Key(), d+1) || mentions(x.Elem(), d+1)
		case *types.Signature:
			for i := 0; i < x.Params().Len(); i++ {
				if mentions(x.Params().At(i).Type(), d+1) {
					return true
				}
			}
			for i := 0; i < x.Results().Len(); i++ {
				if mentions(x.Results().At(i).Type(), d+1) {
					return true
				}
			}
		}
		return false
	}
	for i := 0; i < iface.NumMethods(); i++ {
		if mentions(iface.Method(i).Type(), 0) {
			return true
		}
	}
	return false
}

func (p *Program) funcModSet(fn *ssa.Function) *modSet { return p.funcModSetDepth(fn, 0) }

func (p *Program) funcModSetDepth(fn *ssa.Function, depth int) *modSet {
	if ms, ok := p.modSets[fn]; ok {
		return ms
	}
	if p.modBusy[fn] || depth > 30 {
		return &modSet{all: true, names: map[string]Sort{}}
	}
	p.modBusy[fn] = true
	ms := newModSet()
	for _, b := range fn.Blocks {
		for _, ins := range b.Instrs {
			p.instrMods(ms, fn, ins, depth, func(*ssa.Alloc) bool { return true })
		}
	}
	for _, af := range fn.AnonFuncs {
		_ = af
	}
	delete(p.modBusy, fn)
	p.modSets[fn] = ms
	return ms
}

func (p *Program) loopModSet(fn *ssa.Function, body map[*ssa.BasicBlock]bool) *modSet {
	ms := newModSet()
	var bs []*ssa.BasicBlock
	for b := range body {
		bs = append(bs, b)
	}
	sort.Slice(bs, func(i, j int) bool { return bs[i].Index < bs[j].Index })
	for _, b := range bs {
		for _, ins := range b.Instrs {
			p.instrMods(ms, fn, ins, 0, func(a *ssa.Alloc) bool { return body[a.Block()] })
		}
	}
	if len(ms.paramCalls) > 0 {
		// the loop calls a function-valued parameter of its own function: unknown here
		ms.all = true
	}
	return ms
}

// findFunc resolves a user-facing function key to an ssa function.
func (p *Program) findFunc(key string) *ssa.Function {
	if fn, ok := p.funcs[key]; ok {
		return fn
	}
	return nil
}

// implementors: the module's non-generic named types T (or *T) whose method set implements iface, with
// the function implementing method name. Sorted by type name.
type implementor struct {
	T  types.Type
	Fn *ssa.Function
}

func (p *Program) implementors(iface *types.Interface, name string) []implementor {
	var out []implementor
	for _, sp := range p.prog.AllPackages() {
		if sp.Pkg == nil || !strings.HasPrefix(sp.Pkg.Path(), p.ModPath) {
			continue
		}
		for _, m := range sp.Members {
			tm, ok := m.(*ssa.Type)
			if !ok {
				continue
			}
			n, ok := tm.Type().(*types.Named)
			if !ok || n.TypeParams().Len() > 0 || types.IsInterface(n) {
				continue
			}
			var t types.Type
			switch {
			case types.Implements(n, iface):
				t = n
			case types.Implements(types.NewPointer(n), iface):
				t = types.NewPointer(n)
			default:
				continue
			}
			sel := p.prog.MethodSets.MethodSet(t).Lookup(n.Obj().Pkg(), name)
			if sel == nil {
				continue
			}
			fn := p.prog.MethodValue(sel)
			if fn == nil {
				continue
			}
			out = append(out, implementor{t, fn})
		}
	}
	sort.Slice(out, func(i, j int) bool { return out[i].T.String() < out[j].T.String() })
	return out
}
