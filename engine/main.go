package main

import (
	"encoding/json"
	"flag"
	"fmt"
	"go/token"
	"os"
	"sort"
	"strings"
	"sync"
	"time"
)

type tokenPosition = token.Position

func main() {
	repo := flag.String("repo", "/repo", "repository root")
	specs := flag.String("specs", "/verif/specs", "trusted specs directory")
	funcs := flag.String("funcs", "", "comma separated function keys (module-relative) to verify")
	lemmas := flag.String("lemmas", "", "comma separated lemma names")
	prop := flag.String("prop", "", "property id: read /verif/props/<id>.json")
	tier := flag.String("tier", "quick", "quick|thorough")
	timeout := flag.Int("timeout", 0, "per-obligation timeout ms")
	work := flag.String("work", "", "scratch dir for smt files")
	keep := flag.Bool("keep", false, "keep smt files")
	dump := flag.Bool("dump", false, "print obligations")
	out := flag.String("out", "", "write JSON result")
	nobatch := flag.Bool("nobatch", false, "one query per obligation")
	listSSA := flag.String("ssa", "", "dump ssa of function")
	modsetOf := flag.String("modset", "", "print the static mod-set of a function")
	jsonSummary := flag.Bool("json-summary", false, "print one line per unit: name obligations proved error")
	flag.Parse()

	t0 := time.Now()
	p, err := LoadProgram(*repo, "verif", *specs)
	if err != nil {
		fmt.Fprintln(os.Stderr, "load error:", err)
		os.Exit(2)
	}
	fmt.Fprintf(os.Stderr, "loaded %d functions in %.1fs; %d contracts, %d pure, %d lemmas\n", len(p.funcs), time.Since(t0).Seconds(), len(p.Specs.Contracts), len(p.Specs.Pures), len(p.Specs.Lemmas))
	for _, e := range p.Specs.Errors {
		fmt.Fprintln(os.Stderr, "spec error:", e)
	}
	if *listSSA != "" {
		for k, fn := range p.funcs {
			if strings.Contains(k, *listSSA) {
				fn.WriteTo(os.Stdout)
			}
		}
		return
	}
	if *modsetOf != "" {
		fn := p.findFunc(p.expandUserKey(*modsetOf))
		if fn == nil {
			fmt.Println("no such function")
			return
		}
		ms := p.funcModSet(fn)
		fmt.Println("all:", ms.all, "calls parameters:", ms.paramCalls)
		for _, k := range sortedKeys(ms.names) {
			fmt.Println("  ", k)
		}
		return
	}
	if *prop != "" {
		os.Exit(runProperty(p, *prop, *tier, *work, *keep))
	}
	opt := Options{TimeoutMs: 10000, Agree: 1, WorkDir: *work, KeepSMT: *keep, NoBatch: *nobatch}
	if *tier == "thorough" {
		opt.TimeoutMs, opt.Agree = 120000, 2
	}
	if *timeout > 0 {
		opt.TimeoutMs = *timeout
	}
	if opt.WorkDir == "" {
		opt.WorkDir, _ = os.MkdirTemp("", "govc")
		if !*keep {
			defer os.RemoveAll(opt.WorkDir)
		}
	}
	var units []*UnitResult
	for _, k := range strings.Split(*funcs, ",") {
		k = strings.TrimSpace(k)
		if k == "" {
			continue
		}
		fn := p.findFunc(p.expandUserKey(k))
		if fn == nil {
			fmt.Fprintln(os.Stderr, "no such function:", k, "->", p.expandUserKey(k))
			os.Exit(2)
		}
		units = append(units, p.buildFuncUnit(fn))
	}
	for _, l := range strings.Split(*lemmas, ",") {
		l = strings.TrimSpace(l)
		if l == "" {
			continue
		}
		lm := p.Specs.Lemmas[l]
		if lm == nil {
			fmt.Fprintln(os.Stderr, "no such lemma:", l)
			os.Exit(2)
		}
		units = append(units, p.buildLemmaUnit(lm))
	}
	for _, e := range p.specErrs {
		fmt.Fprintln(os.Stderr, "spec error:", e)
	}
	var wg sync.WaitGroup
	for _, u := range units {
		wg.Add(1)
		go func(u *UnitResult) { defer wg.Done(); u.discharge(opt) }(u)
	}
	wg.Wait()
	if *jsonSummary {
		for _, u := range units {
			np := 0
			for _, o := range u.Obls {
				if o.Status == "proved" {
					np++
				}
			}
			e := "-"
			if u.Error != "" {
				e = "error"
			}
			if u.Cover == "unsat" {
				e = "vacuous"
			}
			fmt.Printf("%s %d %d %s\n", strings.ReplaceAll(u.Unit, " ", ""), len(u.Obls), np, e)
		}
		return
	}
	bad := 0
	for _, u := range units {
		printUnit(u, *dump)
		if u.Error != "" {
			bad++
		}
		for _, o := range u.Obls {
			if o.Status != "proved" {
				bad++
			}
		}
	}
	if *out != "" {
		b, _ := json.MarshalIndent(units, "", " ")
		os.WriteFile(*out, b, 0o644)
	}
	if bad > 0 {
		os.Exit(1)
	}
}

// expandUserKey: "ss2022.(*SlidingWindowFilter).Add" -> "(*mod/ss2022.SlidingWindowFilter).Add"
func (p *Program) expandUserKey(k string) string {
	if _, ok := p.funcs[k]; ok {
		return k
	}
	// the module's root package: "<modname>.F" / "<modname>.(*T).M"
	if strings.HasPrefix(k, p.ModPath+".") {
		rest := strings.TrimPrefix(k, p.ModPath+".")
		if strings.HasPrefix(rest, "(") {
			return expandKey(p.ModPath, rest)
		}
		return p.ModPath + "." + rest
	}
	// pkg.(*T).M or pkg.(T).M or pkg.F
	if i := strings.Index(k, ".("); i > 0 {
		pkg := k[:i]
		rest := k[i+1:] // (*T).M
		full := p.ModPath + "/" + pkg
		if pkg == "." || pkg == "" {
			full = p.ModPath
		}
		return expandKey(full, rest)
	}
	if i := strings.LastIndex(k, "."); i > 0 {
		pkg := k[:i]
		full := p.ModPath + "/" + pkg
		if _, ok := p.funcs[full+"."+k[i+1:]]; ok {
			return full + "." + k[i+1:]
		}
	}
	return k
}

func printUnit(u *UnitResult, dump bool) {
	np := 0
	for _, o := range u.Obls {
		if o.Status == "proved" {
			np++
		}
	}
	fmt.Printf("== %s [%s] obligations=%d proved=%d cover=%s wall=%.1fs\n", u.Unit, u.Kind, len(u.Obls), np, u.Cover, u.WallS)
	if len(u.DeadReturns) > 0 {
		fmt.Printf("   !! unreachable returns under the contract: %s\n", strings.Join(u.DeadReturns, " "))
	}
	if u.Error != "" {
		fmt.Printf("   ERROR: %s\n", u.Error)
	}
	kinds := map[string][2]int{}
	for _, o := range u.Obls {
		k := kinds[o.Kind]
		k[0]++
		if o.Status == "proved" {
			k[1]++
		}
		kinds[o.Kind] = k
	}
	var ks []string
	for k := range kinds {
		ks = append(ks, k)
	}
	sort.Strings(ks)
	for _, k := range ks {
		fmt.Printf("   %-20s %d/%d\n", k, kinds[k][1], kinds[k][0])
	}
	for _, o := range u.Obls {
		if o.Status != "proved" || dump {
			fmt.Printf("   %-8s %s %s [%s] %s %s (%s %.2fs) %s\n", strings.ToUpper(o.Status), o.Name, o.Pos, o.Desc, o.Clause, o.SMTFile, o.Solver, o.TimeS, o.Output)
		}
	}
	if dump {
		for _, n := range u.Notes {
			fmt.Printf("   note: %s\n", n)
		}
	}
}

