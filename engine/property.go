package main

import (
	"encoding/json"
	"fmt"
	"os"
	"path/filepath"
	"regexp"
	"sort"
	"strconv"
	"strings"
	"sync"
	"time"
)

// ---------------------------------------------------------------------------
// Property driver: props/<id>.json -> units -> obligations -> evidence
// ---------------------------------------------------------------------------

type PropSpec struct {
	ID        string   `json:"id"`
	Functions []string `json:"functions"` // functions under contract (contract required)
	Sweep     []string `json:"sweep"`     // panic-freedom only (contract optional)
	Lemmas    []string `json:"lemmas"`
	Assumptions []string `json:"assumptions"`
	NotCovered  []string `json:"not_covered"`
	Bounded     []BoundedSpec `json:"bounded"`
	QuickTimeoutMs int `json:"quick_timeout_ms"`
	// ClausesOnly: functions of which only the contract's own clauses (call-site obligations, postconditions,
	// loop invariants, dyncall/nonblocking/immutable) are claimed, conditionally on the callees' preconditions
	// and the function's own run-time safety, which are not established here and are reported as unclaimed
	ClausesOnly []string `json:"clauses_only"`
}

type BoundedSpec struct {
	Name  string `json:"name"`
	Cmd   string `json:"cmd"`
	Bound string `json:"bound"`
}

type KnownFinding struct {
	Property string `json:"property"`
	Status   string `json:"status"` // "known" | "fixed"
	Unit     string `json:"unit"`
	Kind     string `json:"kind"`
	Match    string `json:"match"`   // substring of clause / desc / callee identifying the obligation
	What     string `json:"what"`
	Exclude  string `json:"exclude"` // optional GVC predicate over the unit's parameters describing the known failing inputs
	Commit   string `json:"commit,omitempty"`
}

type Ledger struct {
	Properties map[string]*LedgerProp `json:"properties"`
}

type LedgerProp struct {
	Units map[string]*LedgerUnit `json:"units"`
}

type LedgerUnit struct {
	Obligations int               `json:"obligations"`
	ByKind      map[string]int    `json:"by_kind"`
	Clauses     map[string]int    `json:"clauses"` // kind|clause -> count
	MaxTimeS    float64           `json:"max_time_s"`
}

func loadJSON(path string, v any) error {
	b, err := os.ReadFile(path)
	if err != nil {
		return err
	}
	return json.Unmarshal(b, v)
}

func verifDir() string {
	if d := os.Getenv("VERIF_DIR"); d != "" {
		return d
	}
	return "/verif"
}

type violation struct {
	unit, obligation, reason string
	replay                   string
	confirmed                bool
}

func runProperty(p *Program, id, tier, work string, keep bool) int {
	start := time.Now()
	vd := verifDir()
	var ps PropSpec
	if err := loadJSON(filepath.Join(vd, "props", id+".json"), &ps); err != nil {
		fmt.Fprintln(os.Stderr, "cannot read property spec:", err)
		return 2
	}
	var known []KnownFinding
	loadJSON(filepath.Join(vd, "known_findings.json"), &known)
	var ledger Ledger
	loadJSON(filepath.Join(vd, "baseline", "ledger.json"), &ledger)
	seed := 0
	if s := os.Getenv("VERIF_SEED"); s != "" {
		seed, _ = strconv.Atoi(s)
	}
	opt := Options{TimeoutMs: 10000, Agree: 1, KeepSMT: true}
	if ps.QuickTimeoutMs > 0 {
		opt.TimeoutMs = ps.QuickTimeoutMs
	}
	if tier == "thorough" {
		opt.TimeoutMs, opt.Agree = 120000, 2
	}
	if work == "" {
		work = filepath.Join(vd, "work", id)
	}
	os.RemoveAll(work)
	os.MkdirAll(work, 0o755)
	opt.WorkDir = work
	replayDir := filepath.Join(vd, "replays")
	os.MkdirAll(replayDir, 0o755)

	var specProblems []string
	for _, e := range p.Specs.Errors {
		specProblems = append(specProblems, e)
	}

	// build units
	var units []*UnitResult
	sweepOnly := map[string]bool{}
	addFunc := func(k string, needContract bool) {
		fn := p.findFunc(p.expandUserKey(k))
		if fn == nil {
			units = append(units, &UnitResult{Unit: k, Kind: "func", Key: k, Error: "contract-unresolved: function " + k + " not found in the current tree"})
			return
		}
		u := p.buildFuncUnit(fn)
		if needContract && !u.HasSpec && u.Error == "" {
			u.Error = "contract-unresolved: no contract found for " + k
		}
		if !needContract {
			sweepOnly[u.Unit] = true
		}
		units = append(units, u)
	}
	for _, k := range ps.Functions {
		addFunc(k, true)
	}
	for _, k := range ps.Sweep {
		addFunc(k, false)
	}
	unclaimed := map[string]int{}
	for _, k := range ps.ClausesOnly {
		n0 := len(units)
		addFunc(k, true)
		for _, u := range units[n0:] {
			if u.gen == nil {
				continue
			}
			var keep []*Obligation
			for _, o := range u.gen.Obls {
				switch o.Kind {
				case "callsite", "ensures", "invariant-entry", "invariant-preserved", "loop-exit", "dyncall", "nonblocking", "immutable":
					keep = append(keep, o)
				default:
					unclaimed[u.Unit]++
				}
			}
			u.gen.Obls = keep
		}
	}
	for _, l := range ps.Lemmas {
		lm := p.Specs.Lemmas[l]
		if lm == nil {
			units = append(units, &UnitResult{Unit: "lemma:" + l, Kind: "lemma", Key: l, Error: "contract-unresolved: lemma " + l + " not found"})
			continue
		}
		units = append(units, p.buildLemmaUnit(lm))
	}
	// lemmas used as hints inside contracts must be proved too
	listed := map[string]bool{}
	for _, l := range ps.Lemmas {
		listed[l] = true
	}
	for _, u := range append([]*UnitResult{}, units...) {
		if u.gen == nil {
			continue
		}
		for _, l := range sortedKeys(u.gen.UsedLemmas) {
			if !listed[l] {
				listed[l] = true
				if lm := p.Specs.Lemmas[l]; lm != nil {
					units = append(units, p.buildLemmaUnit(lm))
				}
			}
		}
	}
	specProblems = append(specProblems, p.specErrs...)

	var wg sync.WaitGroup
	sem := make(chan struct{}, 6)
	for _, u := range units {
		wg.Add(1)
		go func(u *UnitResult) {
			defer wg.Done()
			sem <- struct{}{}
			defer func() { <-sem }()
			u.discharge(opt)
			// retry undecided obligations once at 3x timeout
			var retry []*OblResult
			for _, o := range u.Obls {
				if o.Status != "proved" && o.Status != "failed" {
					retry = append(retry, o)
				}
			}
			if len(retry) > 0 {
				o2 := opt
				o2.TimeoutMs *= 3
				write := func(hint, text string) string {
					fn := scratchFile(o2.WorkDir, hint)
					os.WriteFile(fn, []byte(text), 0o644)
					return fn
				}
				var wg2 sync.WaitGroup
				for _, o := range retry {
					wg2.Add(1)
					go func(o *OblResult) { defer wg2.Done(); u.solveOne(o, o2, write) }(o)
				}
				wg2.Wait()
			}
		}(u)
	}
	wg.Wait()

	// evaluate
	var viols []violation
	var knownLines []string
	total, discharged := 0, 0
	byKind := map[string][2]int{}
	backends := map[string]int{}
	solverTime := 0.0
	trusted := map[string]bool{}
	var samples []map[string]any
	var funcsUnderContract, sweepFuncs, lemmaNames []string
	var unitSummaries []map[string]any
	knownHit := 0
	for _, u := range units {
		switch {
		case u.Kind == "lemma":
			lemmaNames = append(lemmaNames, u.Key)
		case sweepOnly[u.Unit]:
			sweepFuncs = append(sweepFuncs, u.Unit)
		default:
			funcsUnderContract = append(funcsUnderContract, u.Unit)
		}
		for _, n := range u.Notes {
			trusted[n] = true
		}
		us := map[string]any{"unit": u.Unit, "kind": u.Kind, "obligations": len(u.Obls), "cover": u.Cover, "wall_s": round2(u.WallS), "instances": u.Instances}
		if len(u.DeadReturns) > 0 {
			us["unreachable_returns"] = u.DeadReturns
		}
		if n := unclaimed[u.Unit]; n > 0 {
			us["unclaimed_safety_and_callee_precondition_obligations"] = n
			us["claim"] = "contract clauses only, conditional on the callees' preconditions and this function's run-time safety"
		}
		if u.Error != "" {
			us["error"] = u.Error
			viols = append(viols, violation{unit: u.Unit, obligation: u.Unit + "#unit", reason: u.Error})
			unitSummaries = append(unitSummaries, us)
			continue
		}
		if u.Cover == "unsat" {
			viols = append(viols, violation{unit: u.Unit, obligation: u.Unit + "#cover", reason: "vacuous: no return of the function is reachable under the contract's assumptions"})
		}
		np := 0
		for _, o := range u.Obls {
			total++
			k := byKind[o.Kind]
			k[0]++
			if o.Status == "proved" {
				discharged++
				np++
				k[1]++
				backends[o.Solver]++
				solverTime += o.TimeS
				if len(samples) < 6 && o.Kind != "modifies" && o.Solver != "trivial" && (o.Clause != "" || len(samples) < 2) {
					samples = append(samples, map[string]any{"obligation": o.Name, "kind": o.Kind, "clause": o.Clause, "desc": o.Desc, "pos": o.Pos, "backend": o.Solver, "time_s": round2(o.TimeS)})
				}
			}
			byKind[o.Kind] = k
			if o.Status == "proved" {
				continue
			}
			// known finding?
			if kf := matchKnown(known, id, u, o); kf != nil {
				other := false
				if kf.Exclude != "" && o.Status == "failed" {
					other = u.otherViolation(o, kf.Exclude, opt)
				}
				if !other {
					knownLines = append(knownLines, fmt.Sprintf("KNOWN-FINDING: property=%s %s [%s]", id, kf.What, o.Name))
					knownHit++
					discharged++ // accounted for, not proved; reported separately below
					continue
				}
			}
			v := violation{unit: u.Unit, obligation: o.Name}
			switch o.Status {
			case "failed":
				v.reason = "obligation refuted by " + o.Solver
			default:
				v.reason = "obligation not discharged (" + o.Status + "): " + o.Output
			}
			rp := u.replay(o, p, filepath.Join(replayDir, sanitize(o.Name)))
			v.replay, v.confirmed = rp.File, rp.Confirmed
			viols = append(viols, v)
		}
		us["proved"] = np
		unitSummaries = append(unitSummaries, us)
		// ledger comparison (vacuity / lost obligations)
		if lp := ledger.Properties[id]; lp != nil {
			if lu := lp.Units[u.Unit]; lu != nil {
				cur := map[string]int{}
				for _, o := range u.Obls {
					if o.Clause != "" {
						cur[o.Kind+"|"+o.Clause]++
					}
				}
				for ck, n := range lu.Clauses {
					if cur[ck] < n && cur[ck] == 0 {
						viols = append(viols, violation{unit: u.Unit, obligation: u.Unit + "#lost", reason: "obligation present in the baseline ledger is no longer generated: " + ck})
					}
				}
			}
		}
	}
	for _, e := range specProblems {
		viols = append(viols, violation{unit: "contracts", obligation: "contracts#parse", reason: "contract-unresolved: " + e})
	}
	if lp := ledger.Properties[id]; lp != nil {
		have := map[string]bool{}
		for _, u := range units {
			have[u.Unit] = true
		}
		for un := range lp.Units {
			if !have[un] {
				viols = append(viols, violation{unit: un, obligation: un + "#missing", reason: "unit present in the baseline ledger is missing"})
			}
		}
	}

	// bounded stand-ins
	var boundedOut []map[string]any
	for _, b := range ps.Bounded {
		boundedOut = append(boundedOut, map[string]any{"name": b.Name, "bound": b.Bound, "status": "declared-not-run-by-govc"})
	}

	// report
	for _, l := range knownLines {
		fmt.Println(l)
	}
	for _, v := range viols {
		path := v.replay
		if path == "" {
			path = writeReplayStub(replayDir, id, v)
		}
		suffix := ""
		if !v.confirmed {
			suffix = " no-failing-input-found"
		}
		fmt.Printf("VIOLATION property=%s replay=%s%s\n", id, path, suffix)
		fmt.Printf("  obligation: %s\n  reason: %s\n", v.obligation, v.reason)
	}

	// evidence
	kinds := map[string]any{}
	for k, v := range byKind {
		kinds[k] = map[string]int{"obligations": v[0], "discharged": v[1]}
	}
	tb := sortedKeys(trusted)
	tb = append([]string{
		"go/ssa lowering (golang.org/x/tools v0.50.0) and go/types of go1.26.8",
		"govc VC generator (/verif/engine): bit-vector integers with Go wrap-around semantics, typed Burstall-Bornat heap, loops cut at invariants; termination not proved",
		"SMT solvers z3 5.1.0 (z3-new), z3 4.8.12, cvc5 1.0.3 (first definitive answer wins in quick; two agreeing back ends required in thorough)",
	}, tb...)
	ev := map[string]any{
		"property_id": id,
		"tier":        tier,
		"seed":        seed,
		"level":       "proof",
		"coverage": map[string]any{
			"obligations":              total,
			"discharged":               discharged - knownHit,
			"known_findings_reported":  knownHit,
			"checker_cmd":              fmt.Sprintf("/verif/bin/govc -repo %s -prop %s -tier %s", p.RepoDir, id, tier),
			"trusted_base":             tb,
			"samples":                  samples,
			"functions_under_contract": funcsUnderContract,
			"functions_swept_for_panic_freedom": sweepFuncs,
			"lemmas":                   lemmaNames,
			"by_kind":                  kinds,
			"backends":                 backends,
			"solver_time_s":            round2(solverTime),
			"units":                    unitSummaries,
			"bounded_standins":         boundedOut,
			"not_covered":              ps.NotCovered,
			"explanation":              "Each obligation is the negation of (reach condition => goal) together with the function's assumptions, generated from go/ssa of the current /repo working tree and decided unsat by an SMT solver; a property holds on this tree iff every obligation of its units is discharged.",
		},
		"assumptions": append([]string{
			"machine integers are fixed-width bit-vectors (no mathematical-integer idealisation)",
			"sequential execution of each function: effects of other goroutines are not modelled",
			"slices/strings have length and capacity at most 2^48; objects are smaller than 1 MiB",
		}, ps.Assumptions...),
		"wall_s":     round2(time.Since(start).Seconds()),
		"violations": len(viols),
	}
	if knownHit > 0 {
		ev["coverage"].(map[string]any)["discharged_note"] = "obligations matching a listed known finding are reported with KNOWN-FINDING lines and excluded from 'discharged'; 'obligations' counts them"
		ev["coverage"].(map[string]any)["obligations"] = total - knownHit
	}
	os.MkdirAll(filepath.Join(vd, "evidence"), 0o755)
	b, _ := json.MarshalIndent(ev, "", " ")
	os.WriteFile(filepath.Join(vd, "evidence", id+".json"), b, 0o644)
	// ledger candidate (written next to evidence; committed by hand when it is the pinned tree)
	if os.Getenv("GOVC_WRITE_LEDGER") != "" {
		writeLedger(filepath.Join(vd, "baseline", "ledger.json"), id, units)
	}
	fmt.Printf("govc: property %s tier %s: %d units, %d obligations, %d discharged, %d known findings, %d violations, %.1fs\n", id, tier, len(units), total, discharged-knownHit, knownHit, len(viols), time.Since(start).Seconds())
	if !keep && len(viols) == 0 {
		os.RemoveAll(work)
	}
	if len(viols) > 0 {
		return 1
	}
	return 0
}

func round2(f float64) float64 { return float64(int(f*100+0.5)) / 100 }

var sanRe = regexp.MustCompile(`[^A-Za-z0-9_.-]+`)

func sanitize(s string) string {
	s = sanRe.ReplaceAllString(s, "_")
	if len(s) > 120 {
		s = s[len(s)-120:]
	}
	return s
}

func matchKnown(known []KnownFinding, id string, u *UnitResult, o *OblResult) *KnownFinding {
	for i := range known {
		k := &known[i]
		if k.Property != id || k.Status != "known" {
			continue
		}
		if k.Unit != "" && k.Unit != u.Unit {
			continue
		}
		if k.Kind != "" && k.Kind != o.Kind {
			continue
		}
		callee := ""
		if o.obl != nil {
			callee = o.obl.Callee
		}
		if k.Match != "" && !strings.Contains(o.Clause, k.Match) && !strings.Contains(o.Desc, k.Match) && !strings.Contains(callee, k.Match) {
			continue
		}
		return k
	}
	return nil
}

func writeReplayStub(dir, id string, v violation) string {
	path := filepath.Join(dir, sanitize(v.obligation)+".json")
	b, _ := json.MarshalIndent(map[string]any{"property": id, "obligation": v.obligation, "unit": v.unit, "outcome": "no-failing-input-found", "reason": v.reason}, "", " ")
	os.WriteFile(path, b, 0o644)
	return path
}

func writeLedger(path, id string, units []*UnitResult) {
	var l Ledger
	loadJSON(path, &l)
	if l.Properties == nil {
		l.Properties = map[string]*LedgerProp{}
	}
	lp := &LedgerProp{Units: map[string]*LedgerUnit{}}
	for _, u := range units {
		lu := &LedgerUnit{Obligations: len(u.Obls), ByKind: map[string]int{}, Clauses: map[string]int{}}
		for _, o := range u.Obls {
			lu.ByKind[o.Kind]++
			if o.Clause != "" {
				lu.Clauses[o.Kind+"|"+o.Clause]++
			}
			if o.TimeS > lu.MaxTimeS {
				lu.MaxTimeS = round2(o.TimeS)
			}
		}
		lp.Units[u.Unit] = lu
	}
	l.Properties[id] = lp
	os.MkdirAll(filepath.Dir(path), 0o755)
	b, _ := json.MarshalIndent(l, "", " ")
	os.WriteFile(path, b, 0o644)
}

func sortedStrings(m map[string]bool) []string {
	var out []string
	for k := range m {
		out = append(out, k)
	}
	sort.Strings(out)
	return out
}
