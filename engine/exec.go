package main

import (
	"fmt"
	"go/constant"
	"go/token"
	"go/types"
	"math/big"
	"sort"
	"strings"

	"golang.org/x/tools/go/ssa"
)

// ---------------------------------------------------------------------------
// Frame: symbolic execution of one function activation over its SSA CFG.
// Loops are cut at their headers with invariants; everything else is a DAG.
// ---------------------------------------------------------------------------

type Closure struct {
	Fn       *ssa.Function
	Bindings []*SVal
}

type retInfo struct {
	reach string
	vals  []*SVal
	st    *State
	pos   token.Pos
	blk   *ssa.BasicBlock
}

type loopInfo struct {
	header  *ssa.BasicBlock
	ordinal int
	body    map[*ssa.BasicBlock]bool
	backs   []*ssa.BasicBlock
	spec    *LoopSpec
	preSt   *State // state at loop entry (before havoc)
	headSt  *State // state at head after havoc
	phiEnv  map[*ssa.Phi]*SVal
	mods    []*modItem
	scope   *modScope
	reach   string
	autoInv []autoInv
}

type autoInv struct {
	phi *ssa.Phi
	op  string
	lo  string
}

// guardOnIncrement: header ends in "if (phi+1) < X" and every back edge carries that phi+1
func (f *Frame) guardOnIncrement(li *loopInfo, phi *ssa.Phi) bool {
	h := li.header
	br, ok := h.Instrs[len(h.Instrs)-1].(*ssa.If)
	if !ok {
		return false
	}
	cmp, ok := br.Cond.(*ssa.BinOp)
	if !ok || cmp.Op != token.LSS {
		return false
	}
	inc, ok := cmp.X.(*ssa.BinOp)
	if !ok || inc.Op != token.ADD || inc.X != ssa.Value(phi) {
		return false
	}
	// the true branch must stay in the loop
	if !li.body[h.Succs[0]] {
		return false
	}
	for i, p := range h.Preds {
		if li.body[p] && phi.Edges[i] != ssa.Value(inc) {
			return false
		}
	}
	return true
}

// counterLowerBound recognises i := c; ...; i = i + 1 (the only assignment in the loop).
func (f *Frame) counterLowerBound(li *loopInfo, phi *ssa.Phi) (string, bool) {
	if kindOf(phi.Type()) != KInt {
		return "", false
	}
	var lo string
	for i, p := range li.header.Preds {
		e := phi.Edges[i]
		if li.body[p] {
			// back edge: must be phi + 1
			b, ok := e.(*ssa.BinOp)
			if !ok || b.Op != token.ADD {
				return "", false
			}
			c, ok := b.Y.(*ssa.Const)
			if !ok || b.X != ssa.Value(phi) || c.Value == nil || c.Int64() != 1 {
				return "", false
			}
		} else {
			c, ok := e.(*ssa.Const)
			if !ok || c.Value == nil {
				return "", false
			}
			t := f.g.constOf(c).Term
			if lo != "" && lo != t {
				return "", false
			}
			lo = t
		}
	}
	if lo == "" {
		return "", false
	}
	// only for counters the loop itself bounds (some comparison in the loop involves the counter or its
	// increment); a free-running counter may wrap, and "counter >= start" would then be a false alarm
	guarded := false
	for b := range li.body {
		for _, ins := range b.Instrs {
			c, ok := ins.(*ssa.BinOp)
			if !ok {
				continue
			}
			switch c.Op {
			case token.LSS, token.LEQ, token.GTR, token.GEQ, token.NEQ, token.EQL:
			default:
				continue
			}
			for _, opd := range []ssa.Value{c.X, c.Y} {
				if opd == ssa.Value(phi) {
					guarded = true
				}
				if inc, ok := opd.(*ssa.BinOp); ok && inc.Op == token.ADD && inc.X == ssa.Value(phi) {
					guarded = true
				}
			}
		}
	}
	return lo, guarded
}

type Frame struct {
	g            *Gen
	fn           *ssa.Function
	vals         map[ssa.Value]*SVal
	clos         map[ssa.Value]*Closure
	contract     *Contract
	entry        *State
	rets         []retInfo
	loops        map[*ssa.BasicBlock]*loopInfo
	loopList     []*loopInfo
	isTop        bool
	depth        int
	defers       []*ssa.Defer
	outReach     map[*ssa.BasicBlock]string
	outState     map[*ssa.BasicBlock]*State
	curBlock     *ssa.BasicBlock
	curIdx       int
	curReach     string
	curState     *State
	callsiteHits map[*Callsite]int
	isInit       bool   // executing a package initializer (calls to other initializers are skipped)
	label        string // prefix for names
	callerScopes []*modScope
	fnScope      *modScope
	// region support
	regionFrom, regionTo string
	regionActive         bool
	region               *Region
	callsiteWhy          map[*Callsite]string
	parent               *Frame              // the frame this one is inlined into
	privAllocs           map[*ssa.Alloc]bool // local variables whose address never leaves the function (cached)
	privDone             bool
	privMaps             map[*ssa.MakeMap]bool // maps made in this function that never leave it
	regionExits          []retInfo
	nameOverride         map[string]*SVal
}

func (g *Gen) newFrame(fn *ssa.Function, top bool) *Frame {
	f := &Frame{g: g, fn: fn, vals: map[ssa.Value]*SVal{}, clos: map[ssa.Value]*Closure{}, isTop: top,
		loops: map[*ssa.BasicBlock]*loopInfo{}, outReach: map[*ssa.BasicBlock]string{}, outState: map[*ssa.BasicBlock]*State{}}
	f.contract = g.P.contractFor(fn)
	f.callsiteHits = map[*Callsite]int{}
	f.label = fn.Name()
	return f
}

func (f *Frame) pos(p token.Pos) token.Position { return posOf(f.fn, p) }

// ------------------------------------------------------------------ CFG analysis

func (f *Frame) analyzeLoops() {
	fn := f.fn
	for _, b := range fn.Blocks {
		for _, s := range b.Succs {
			if s.Dominates(b) { // back edge b -> s
				li := f.loops[s]
				if li == nil {
					li = &loopInfo{header: s, body: map[*ssa.BasicBlock]bool{s: true}}
					f.loops[s] = li
				}
				li.backs = append(li.backs, b)
				// natural loop: all blocks reaching b without passing s
				stack := []*ssa.BasicBlock{b}
				for len(stack) > 0 {
					x := stack[len(stack)-1]
					stack = stack[:len(stack)-1]
					if li.body[x] {
						continue
					}
					li.body[x] = true
					stack = append(stack, x.Preds...)
				}
			}
		}
	}
	var hs []*ssa.BasicBlock
	for h := range f.loops {
		hs = append(hs, h)
	}
	sort.Slice(hs, func(i, j int) bool { return hs[i].Index < hs[j].Index })
	for i, h := range hs {
		li := f.loops[h]
		li.ordinal = i
		if f.contract != nil {
			li.spec = f.contract.Loops[i]
		}
		f.loopList = append(f.loopList, li)
	}
	if f.contract != nil {
		for n := range f.contract.Loops {
			if n >= len(hs) {
				f.g.P.specError("%s: contract names loop %d but the function has %d loops", f.contract.Key, n, len(hs))
			}
		}
	}
}

func (f *Frame) isBackEdge(from, to *ssa.BasicBlock) bool {
	li := f.loops[to]
	if li == nil {
		return false
	}
	for _, b := range li.backs {
		if b == from {
			return true
		}
	}
	return false
}

func (f *Frame) rpo() []*ssa.BasicBlock {
	seen := map[*ssa.BasicBlock]bool{}
	var post []*ssa.BasicBlock
	var dfs func(b *ssa.BasicBlock)
	dfs = func(b *ssa.BasicBlock) {
		seen[b] = true
		for _, s := range b.Succs {
			if !seen[s] && !f.isBackEdge(b, s) {
				dfs(s)
			}
		}
		post = append(post, b)
	}
	dfs(f.fn.Blocks[0])
	for i, j := 0, len(post)-1; i < j; i, j = i+1, j-1 {
		post[i], post[j] = post[j], post[i]
	}
	return post
}

func (f *Frame) edgeCond(from, to *ssa.BasicBlock, idx int) string {
	// idx: index of 'from' in to.Preds (to disambiguate duplicate edges)
	if len(from.Instrs) == 0 {
		return "true"
	}
	if br, ok := from.Instrs[len(from.Instrs)-1].(*ssa.If); ok {
		c := f.val(br.Cond).Term
		t, e := from.Succs[0] == to, from.Succs[1] == to
		if t && e {
			// two edges to the same block: figure out which from pred position
			n := 0
			for i, p := range to.Preds {
				if p == from {
					if i == idx {
						break
					}
					n++
				}
			}
			if n == 0 {
				return c
			}
			return sNot(c)
		}
		if t {
			return c
		}
		return sNot(c)
	}
	return "true"
}

// ------------------------------------------------------------------ running

// run executes the function body from its entry with the given reach/state.
func (f *Frame) run(entryReach string, st *State) {
	g := f.g
	f.entry = st
	if len(f.fn.Blocks) == 0 {
		panic(unsupported("function without body: " + f.fn.String()))
	}
	f.analyzeLoops()
	order := f.rpo()
	processed := map[*ssa.BasicBlock]bool{}
	for _, b := range order {
		var reach string
		var state *State
		li := f.loops[b]
		type edge struct {
			cond string
			st   *State
			pidx int
		}
		var edges []edge
		if b.Index == 0 {
			reach, state = entryReach, g.clone(st)
		} else {
			for i, p := range b.Preds {
				if f.isBackEdge(p, b) || !processed[p] {
					continue
				}
				c := sAnd(f.outReach[p], f.edgeCond(p, b, i))
				c = g.define("e", SBool, c)
				edges = append(edges, edge{c, f.outState[p], i})
			}
			if len(edges) == 0 {
				continue // unreachable (e.g. recover block)
			}
			var cs []string
			var sts []*State
			for _, e := range edges {
				cs = append(cs, e.cond)
				sts = append(sts, e.st)
			}
			reach = g.define("r."+b.Comment, SBool, sOr(cs...))
			state = g.join(sts, cs)
		}
		processed[b] = true
		f.curBlock, f.curReach, f.curState = b, reach, state

		// phis
		phiIn := map[*ssa.Phi]*SVal{}
		for _, ins := range b.Instrs {
			phi, ok := ins.(*ssa.Phi)
			if !ok {
				break
			}
			var v *SVal
			for k := len(edges) - 1; k >= 0; k-- {
				ev := f.val(phi.Edges[edges[k].pidx])
				ev = f.coerce(ev, phi.Type())
				if v == nil {
					v = ev
				} else {
					v = g.iteVal(edges[k].cond, ev, v)
				}
			}
			phiIn[phi] = g.nameVal(phi.Name(), v)
		}

		if li != nil {
			f.cutLoop(li, phiIn)
		} else {
			for phi, v := range phiIn {
				f.vals[phi] = v
			}
		}
		// loop exit assertions: b is outside loop L but has a predecessor inside it
		for _, l := range f.loopList {
			if l.spec == nil || len(l.spec.Exits)+len(l.spec.Breaks) == 0 || l.body[b] {
				continue
			}
			isExit := false
			for _, p := range b.Preds {
				if l.body[p] && processed[p] {
					isExit = true
				}
			}
			if !isExit {
				continue
			}
			clauses := append([]*Clause{}, l.spec.Exits...)
			// "break" clauses: only where control stays inside an enclosing loop
			inOuter := false
			for _, l2 := range f.loopList {
				if l2 != l && l2.body[b] && l2.body[l.header] {
					inOuter = true
				}
			}
			if inOuter {
				clauses = append(clauses, l.spec.Breaks...)
			}
			for _, ex := range clauses {
				env := f.specEnv(f.curState, f.entry).asGoal()
				env.at = b
				env.loopPre = l.preSt
				g.beginGoal()
				t := env.evalBool(ex.E)
				pos := token.Position{}
				if len(b.Instrs) > 0 {
					pos = f.pos(b.Instrs[0].Pos())
				}
				o := g.oblige("loop-exit", f.curReach, t, pos, fmt.Sprintf("after loop %d of %s", l.ordinal, f.fn.Name()))
				g.endGoal()
				o.Clause = ex.Text
				env2 := f.specEnv(f.curState, f.entry).asAssume(f.curReach)
				env2.at = b
				env2.loopPre = l.preSt
				g.assume(f.curReach, env2.evalBool(ex.E))
			}
		}

		f.execBlock(b)
		f.outReach[b] = f.curReach
		f.outState[b] = f.curState
	}
	// back edges: invariant preservation
	for _, li := range f.loopList {
		if !processed[li.header] {
			continue
		}
		for _, p := range li.backs {
			if !processed[p] {
				continue
			}
			for i, pp := range li.header.Preds {
				if pp != p {
					continue
				}
				c := g.define("be", SBool, sAnd(f.outReach[p], f.edgeCond(p, li.header, i)))
				sub := map[*ssa.Phi]*SVal{}
				for _, ins := range li.header.Instrs {
					phi, ok := ins.(*ssa.Phi)
					if !ok {
						break
					}
					sub[phi] = f.coerce(f.val(phi.Edges[i]), phi.Type())
				}
				for _, ai := range li.autoInv {
					o := g.oblige("invariant-preserved", c, sApp(ai.op, sub[ai.phi].Term, ai.lo), f.pos(li.header.Instrs[0].Pos()), fmt.Sprintf("automatic counter bound of loop %d of %s", li.ordinal, f.fn.Name()))
					o.Clause = "auto: " + ai.phi.Comment + " >= initial value"
				}
				// this back edge may also leave an inner loop (a break that continues the outer loop): that
				// loop's exit/break clauses are asserted here, at the end of the leaving block
				for _, l := range f.loopList {
					if l == li || l.spec == nil || !l.body[p] || l.body[li.header] {
						continue
					}
					for _, ex := range append(append([]*Clause{}, l.spec.Exits...), l.spec.Breaks...) {
						env := f.specEnv(f.outState[p], f.entry).asGoal()
						env.at = p
						env.atIdx = len(p.Instrs)
						env.curParams = true
						env.loopPre = l.preSt
						g.beginGoal()
						t := env.evalBool(ex.E)
						pos := token.Position{}
						if len(p.Instrs) > 0 {
							pos = f.pos(p.Instrs[len(p.Instrs)-1].Pos())
						}
						o := g.oblige("loop-exit", c, t, pos, fmt.Sprintf("leaving loop %d of %s towards the next iteration of loop %d", l.ordinal, f.fn.Name(), li.ordinal))
						g.endGoal()
						o.Clause = ex.Text
					}
				}
				if li.spec != nil {
					for _, inv := range li.spec.Invariants {
						env := f.specEnv(f.outState[p], f.entry).asGoal()
						env.phiSub = sub
						env.at = li.header
						env.curParams = true
						env.loopPre = li.preSt
						g.beginGoal()
						t := env.evalBool(inv.E)
						o := g.oblige("invariant-preserved", c, t, f.pos(li.header.Instrs[0].Pos()), fmt.Sprintf("loop %d of %s", li.ordinal, f.fn.Name()))
						g.endGoal()
						o.Clause = inv.Text
					}
				}
			}
		}
	}
}

// cutLoop handles a loop header: assert invariant on entry, havoc, assume invariant.
func (f *Frame) cutLoop(li *loopInfo, phiIn map[*ssa.Phi]*SVal) {
	g := f.g
	li.preSt = g.clone(f.curState)
	li.reach = f.curReach
	pos := token.Position{}
	if len(li.header.Instrs) > 0 {
		pos = f.pos(li.header.Instrs[0].Pos())
	}
	if li.spec != nil {
		for _, inv := range li.spec.Invariants {
			env := f.specEnv(f.curState, f.entry).asGoal()
			env.phiSub = phiIn
			env.at = li.header
			env.curParams = true
			env.loopPre = li.preSt
			g.beginGoal()
			t := env.evalBool(inv.E)
			o := g.oblige("invariant-entry", f.curReach, t, pos, fmt.Sprintf("loop %d of %s", li.ordinal, f.fn.Name()))
			g.endGoal()
			o.Clause = inv.Text
		}
	}
	// havoc
	if li.spec != nil && li.spec.HasModifies {
		env := f.specEnv(f.curState, f.entry)
		env.phiSub = phiIn
		env.at = li.header
		env.curParams = true
		env.loopPre = li.preSt
		var items []*modItem
		for _, m := range li.spec.Modifies {
			items = append(items, env.evalMod(m.E)...)
		}
		li.mods = items
		li.scope = &modScope{items: items, wm: g.heapGet(f.curState, allocHeap, allocSort), what: fmt.Sprintf("modifies clause of loop %d in %s", li.ordinal, f.fn.Name())}
		f.curState = g.clone(f.curState)
		for _, it := range items {
			g.havocItem(f.curState, f.curReach, it)
		}
	} else {
		ms := g.P.loopModSet(f.fn, li.body)
		if ms.all {
			// keep allocation monotone knowledge minimal: everything unknown
			preAll := f.curState
			f.curState = g.newEpochState()
			g.note("loop %d of %s: unknown writes; all heaps havocked at the loop head", li.ordinal, f.fn.String())
			f.keepLoopInvariantLocals(li, preAll, f.curState)
		} else {
			f.curState = g.clone(f.curState)
			g.havocNames(f.curState, ms)
		}
	}
	g.advanceClock(f.curReach, li.preSt, f.curState)
	li.headSt = g.clone(f.curState)
	li.phiEnv = map[*ssa.Phi]*SVal{}
	for _, ins := range li.header.Instrs {
		phi, ok := ins.(*ssa.Phi)
		if !ok {
			break
		}
		// automatic counter invariant: phi starts at a constant c and is stepped by +1 on every back edge
		// => phi >= c (checked like any invariant: entry is trivial, preservation is an obligation)
		if lo, ok := f.counterLowerBound(li, phi); ok {
			in := phiIn[phi]
			_, signed := intInfo(phi.Type())
			ge := "bvuge"
			if signed {
				ge = "bvsge"
			}
			g.oblige("invariant-entry", f.curReach, sApp(ge, in.Term, lo), pos, fmt.Sprintf("automatic counter bound of loop %d of %s", li.ordinal, f.fn.Name())).Clause = "auto: " + phi.Comment + " >= initial value"
			li.autoInv = append(li.autoInv, autoInv{phi, ge, lo})
			// range-style loop: the header tests (phi+1) < X and the back edge carries that same phi+1.
			// Then phi < MaxInt is inductive (phi+1 cannot wrap), which is what index checks on phi+1 need.
			if signed && f.guardOnIncrement(li, phi) {
				bits, _ := intInfo(phi.Type())
				mx := bvLit(new(big.Int).Sub(new(big.Int).Lsh(big.NewInt(1), uint(bits-1)), big.NewInt(1)), bits)
				g.oblige("invariant-entry", f.curReach, sApp("bvslt", in.Term, mx), pos, fmt.Sprintf("automatic counter bound of loop %d of %s", li.ordinal, f.fn.Name())).Clause = "auto: " + phi.Comment + " < MaxInt"
				li.autoInv = append(li.autoInv, autoInv{phi, "bvslt", mx})
			}
		}
		v := g.freshVal(phi.Type(), phi.Name())
		g.assume(f.curReach, g.typeInv(v))
		g.assume(f.curReach, g.refFacts(f.curState, v))
		g.addNamed(v)
		f.vals[phi] = v
		li.phiEnv[phi] = v
	}
	for _, ai := range li.autoInv {
		g.assume(f.curReach, sApp(ai.op, f.vals[ai.phi].Term, ai.lo))
	}
	if li.spec != nil {
		for _, inv := range li.spec.Invariants {
			env := f.specEnv(f.curState, f.entry).asAssume(f.curReach)
			env.at = li.header
			env.curParams = true
			env.loopPre = li.preSt
			g.assume(f.curReach, env.evalBool(inv.E))
		}
	}
}

func famOfHeap(name string) string {
	if i := strings.Index(name, "#"); i >= 0 {
		return name[:i]
	}
	return name
}

func (g *Gen) heapsMatching(fam string) []string {
	var out []string
	for hn := range g.heapSort {
		if famOfHeap(hn) == fam {
			out = append(out, hn)
		}
	}
	sort.Strings(out)
	return out
}

// ------------------------------------------------------------------ values

func (f *Frame) val(v ssa.Value) *SVal {
	g := f.g
	switch x := v.(type) {
	case *ssa.Const:
		return g.constOf(x)
	case *ssa.Global:
		return g.globalAddr(x)
	case *ssa.Function:
		return &SVal{T: x.Type(), K: KFunc, Term: bv64(int64(g.W.funcID(x.String())))}
	case *ssa.Builtin:
		return &SVal{T: x.Type(), K: KFunc, Term: bv64(0)}
	}
	if sv, ok := f.vals[v]; ok {
		return sv
	}
	panic(unsupported(fmt.Sprintf("value %s (%T) used before definition in %s", v.Name(), v, f.fn.Name())))
}

func (g *Gen) constOf(c *ssa.Const) *SVal {
	t := c.Type()
	if c.Value == nil {
		return g.zero(t)
	}
	switch kindOf(t) {
	case KBool:
		if constant.BoolVal(c.Value) {
			return mkBool("true")
		}
		return &SVal{T: t, K: KBool, Term: "false"}
	case KInt:
		bi, ok := constant.Val(constant.ToInt(c.Value)).(*big.Int)
		if !ok {
			i64, _ := constant.Int64Val(constant.ToInt(c.Value))
			bi = big.NewInt(i64)
		}
		return g.constVal(t, bi)
	case KString:
		return g.strLit(t, constant.StringVal(c.Value))
	case KFloat:
		return scalar(t, KFloat, g.fresh("fconst", SF64))
	}
	panic(unsupported("constant of type " + t.String()))
}

func (g *Gen) strLit(t types.Type, s string) *SVal {
	g.usedStr = true
	id := g.W.strLit(s)
	n := fmt.Sprintf("strlit%d", id)
	if !g.ufDecl[n] {
		g.ufDecl[n] = true
		g.decls = append(g.decls, fmt.Sprintf("(declare-const %s Str)", n))
		g.addAxiom(sEq(sApp("strlen", n), bv64(int64(len(s)))))
		if len(s) <= 32 {
			for i := 0; i < len(s); i++ {
				g.addAxiom(sEq(sApp("strat", n, bv64(int64(i))), bvLit(big.NewInt(int64(s[i])), 8)))
			}
		}
		if s == "" {
			g.addAxiom(sEq(n, "str_empty"))
		}
	}
	return scalar(t, KString, n)
}

// ensureInit evaluates the package initializer of an in-module package symbolically (once per unit), so
// that immutable package-level variables have the values their initialisers give them.
func (g *Gen) ensureInit(pkg *ssa.Package) {
	if pkg == nil || !strings.HasPrefix(pkg.Pkg.Path(), g.P.ModPath) {
		return
	}
	if g.initDone == nil {
		g.initDone = map[string]bool{}
	}
	if g.initDone[pkg.Pkg.Path()] {
		return
	}
	g.initDone[pkg.Pkg.Path()] = true
	fn := pkg.Func("init")
	if fn == nil || len(fn.Blocks) == 0 {
		return
	}
	defer func() {
		if r := recover(); r != nil {
			if _, ok := r.(error); !ok {
				panic(r)
			}
			g.note("package initializer of %s could not be evaluated (%v): its variables are unconstrained", pkg.Pkg.Path(), r)
		}
	}()
	saveQ := g.inQuant
	g.inQuant = 0
	g.specMode++
	defer func() { g.specMode--; g.inQuant = saveQ }()
	fr := g.newFrame(fn, false)
	fr.depth = 1
	fr.isInit = true
	imm := g.immState()
	// the guard is false when the initializer starts
	if gl, ok := pkg.Members["init$guard"].(*ssa.Global); ok {
		imm.heaps["G|"+gl.String()+"#"] = "false"
		g.heapSort["G|"+gl.String()+"#"] = SBool
	}
	fr.run("true", imm)
	if len(fr.rets) == 0 {
		return
	}
	var conds []string
	var sts []*State
	for _, r := range fr.rets {
		conds = append(conds, r.reach)
		sts = append(sts, r.st)
	}
	fin := g.join(sts, conds)
	// materialise every heap the initializer touched
	for _, st := range sts {
		for k := range st.heaps {
			g.heapGet(fin, k, g.heapSort[k])
		}
	}
	for k, v := range fin.heaps {
		if k == allocHeap {
			continue
		}
		imm.heaps[k] = v
	}
	g.note("package initializer evaluated symbolically for immutable globals: %s", pkg.Pkg.Path())
}

func (g *Gen) globalAddr(x *ssa.Global) *SVal {
	name := x.String()
	et := x.Type().(*types.Pointer).Elem()
	imm := !g.P.mutableGlobals[name]
	if imm && g.specInit == 0 {
		g.specInit++
		g.ensureInit(x.Pkg)
		g.specInit--
	}
	if isAggregate(et) {
		// distinct, fixed addresses below every allocation watermark
		return &SVal{T: x.Type(), K: KPtr, Term: bv64(int64(1<<40) + int64(g.W.funcID("global:"+name))<<20), Imm: imm}
	}
	return &SVal{T: x.Type(), K: KPtr, Term: bv64(int64(1<<40) + int64(g.W.funcID("global:"+name))<<20), Prov: &Prov{Kind: 3, Fam: "G|" + name}, Imm: imm}
}

// coerce adapts a value to a (possibly differently named) type with the same representation.
func (f *Frame) coerce(v *SVal, t types.Type) *SVal {
	if v.T != nil && types.Identical(v.T, t) {
		return v
	}
	k := kindOf(t)
	if v.T == nil && v.Const != nil {
		return f.g.constVal(t, v.Const)
	}
	if k == v.K {
		n := *v
		n.T = t
		if k == KStruct {
			st := structOf(t)
			n.Sub = make([]*SVal, len(v.Sub))
			for i := range v.Sub {
				n.Sub[i] = f.coerce(v.Sub[i], st.Field(i).Type())
			}
		}
		return &n
	}
	// nil constant to iface/slice/ptr/map
	if v.K == KPtr && v.Term == bv64(0) {
		return f.g.zero(t)
	}
	return v
}

// ------------------------------------------------------------------ block execution

func (f *Frame) execBlock(b *ssa.BasicBlock) {
	for i, ins := range b.Instrs {
		f.curIdx = i
		if f.isTop && f.contract != nil && len(f.contract.Callsites) > 0 {
			if ci, ok := ins.(ssa.CallInstruction); ok {
				f.checkCallsites(ci)
			}
		}
		f.exec(ins)
	}
	f.curIdx = -1
}

func calleeName(c *ssa.CallCommon) string {
	if b, ok := c.Value.(*ssa.Builtin); ok {
		return b.Name()
	}
	if c.IsInvoke() {
		return invokeKey(c)
	}
	if fn := c.StaticCallee(); fn != nil {
		return fn.String()
	}
	return "dynamic"
}

func (f *Frame) checkCallsites(ci ssa.CallInstruction) {
	g := f.g
	name := calleeName(ci.Common())
	for _, cs := range f.contract.Callsites {
		if !(name == cs.Callee || strings.HasSuffix(name, "."+cs.Callee) || strings.HasSuffix(name, ")."+cs.Callee)) {
			continue
		}
		env := f.specEnv(f.curState, f.entry).asGoal()
		env.at = f.curBlock
		env.atIdx = f.curIdx
		env.curParams = true
		// innermost cut loop around the call: iter(x) and pre(x) refer to its iteration head / entry
		var inner *loopInfo
		for _, li := range f.loops {
			if li != nil && li.body[f.curBlock] && li.headSt != nil && (inner == nil || len(li.body) < len(inner.body)) {
				inner = li
			}
		}
		if inner != nil {
			env.loopHead = inner.headSt
			env.loopPre = inner.preSt
		}
		// arguments of the call are available as arg0, arg1, ...
		for i, a := range ci.Common().Args {
			func() {
				defer func() { recover() }()
				env.vars[fmt.Sprintf("arg%d", i)] = f.val(a)
			}()
		}
		if cs.Set != "" {
			senv := f.specEnv(f.curState, f.entry)
			senv.at, senv.atIdx, senv.curParams = f.curBlock, f.curIdx, true
			for k, v := range env.vars {
				if strings.HasPrefix(k, "arg") {
					senv.vars[k] = v
				}
			}
			name := "$ghost." + cs.Set
			if _, ok := g.P.Specs.Ghosts[cs.Set]; !ok {
				panic(specErr("assignment to undeclared ghost variable $" + cs.Set))
			}
			if g.P.Specs.Ghosts[cs.Set] == "bool" {
				g.heapSet(f.curState, name, SBool, senv.evalBool(cs.C.E))
			} else {
				g.heapSet(f.curState, name, SBV64, senv.eval(cs.C.E).Term)
			}
			f.callsiteHits[cs]++
			continue
		}
		g.beginGoal()
		var t string
		skipped := false
		saveQ, saveQB := g.inQuant, len(g.qbuilding)
		func() {
			defer func() {
				if r := recover(); r != nil {
					g.inQuant, g.qbuilding = saveQ, g.qbuilding[:saveQB]
					if se, ok := r.(specErr); ok {
						// the clause does not type-check at this call site (e.g. a different argument type): not this site
						g.note("callsite clause %q not applicable at %s: %s", cs.C.Text, f.pos(ci.Pos()), string(se))
						if f.callsiteWhy == nil {
							f.callsiteWhy = map[*Callsite]string{}
						}
						f.callsiteWhy[cs] = string(se)
						skipped = true
						return
					}
					panic(r)
				}
			}()
			t = env.evalBool(cs.C.E)
		}()
		if skipped {
			g.endGoal()
			continue
		}
		f.callsiteHits[cs]++
		o := g.oblige("callsite", f.curReach, t, f.pos(ci.Pos()), "before call of "+cs.Callee+" in "+f.fn.Name())
		g.endGoal()
		o.Clause = cs.C.Text
		g.assume(f.curReach, t)
	}
}

func (f *Frame) setVal(v ssa.Value, sv *SVal) {
	if sv == nil {
		return
	}
	if sv.K != KTuple {
		sv = f.coerce(sv, v.Type())
	}
	n := f.g.nameVal(v.Name(), sv)
	n.Clo = sv.Clo
	n.Imm = sv.Imm
	n.Off = sv.Off
	f.vals[v] = n
	// loop counters' increments are useful instantiation/witness candidates
	if b, ok := v.(*ssa.BinOp); ok && (b.Op == token.ADD || b.Op == token.SUB) && f.isTop {
		if _, isPhi := b.X.(*ssa.Phi); isPhi {
			f.g.addNamed(n)
		}
	}
}

func (f *Frame) oblige(kind, goal string, pos token.Pos, desc string) *Obligation {
	o := f.g.oblige(kind, f.curReach, goal, f.pos(pos), desc)
	// execution continues past a check only if it passed
	if goal != "false" {
		f.g.assume(f.curReach, goal)
	}
	return o
}

func idx64(v *SVal) string {
	if v.K != KInt {
		panic(unsupported("non-integer index"))
	}
	return convInt(v.Term, v.T, tInt)
}

func (f *Frame) exec(ins ssa.Instruction) {
	g := f.g
	switch x := ins.(type) {
	case *ssa.Phi:
		// handled at block entry
	case *ssa.DebugRef:
	case *ssa.Alloc:
		et := x.Type().(*types.Pointer).Elem()
		ref := g.newRef(f.curState, f.curReach, x.Name())
		p := &SVal{T: x.Type(), K: KPtr, Term: ref}
		if !isAggregate(et) {
			p.Prov = &Prov{Kind: 1, Fam: "C|" + typeKey(et), Idx: ref}
		}
		g.zeroInit(f.curState, p, et)
		f.vals[x] = p
	case *ssa.BinOp:
		f.setVal(x, f.binop(x.Op, f.val(x.X), f.val(x.Y), x.Type(), x.Pos()))
	case *ssa.UnOp:
		f.setVal(x, f.unop(x))
	case *ssa.Call:
		r := f.call(x, &x.Call)
		if r != nil {
			f.setVal(x, r)
		}
	case *ssa.ChangeType:
		f.setVal(x, f.coerce(f.val(x.X), x.Type()))
	case *ssa.Convert:
		f.setVal(x, f.convert(f.val(x.X), x.Type(), x.Pos()))
	case *ssa.MultiConvert:
		f.setVal(x, f.convert(f.val(x.X), x.Type(), x.Pos()))
	case *ssa.ChangeInterface:
		v := f.val(x.X)
		f.setVal(x, &SVal{T: x.Type(), K: KIface, Sub: v.Sub})
	case *ssa.MakeInterface:
		f.setVal(x, f.makeIface(f.val(x.X), x.Type()))
	case *ssa.TypeAssert:
		f.setVal(x, f.typeAssert(x))
	case *ssa.Extract:
		f.setVal(x, f.val(x.Tuple).Sub[x.Index])
	case *ssa.Field:
		f.setVal(x, f.val(x.X).Sub[x.Field])
	case *ssa.FieldAddr:
		p := f.val(x.X)
		st := x.X.Type().Underlying().(*types.Pointer).Elem()
		r := g.fieldAddr(p, st, x.Field)
		r.Imm = p.Imm
		f.nilCheck(p, x.Pos(), "field address of nil pointer")
		f.setVal(x, r)
	case *ssa.Index:
		f.setVal(x, f.indexVal(x))
	case *ssa.IndexAddr:
		f.setVal(x, f.indexAddr(x))
	case *ssa.Lookup:
		f.setVal(x, f.lookup(x))
	case *ssa.MakeMap:
		f.setVal(x, f.makeMap(x))
	case *ssa.MakeSlice:
		f.setVal(x, f.makeSlice(x))
	case *ssa.MakeClosure:
		fn := x.Fn.(*ssa.Function)
		clo := &Closure{Fn: fn}
		for _, b := range x.Bindings {
			clo.Bindings = append(clo.Bindings, f.val(b))
		}
		ref := g.newRef(f.curState, f.curReach, "clo")
		f.vals[x] = &SVal{T: x.Type(), K: KFunc, Term: ref, Clo: clo}
	case *ssa.MakeChan:
		ref := g.newRef(f.curState, f.curReach, "chan")
		f.vals[x] = &SVal{T: x.Type(), K: KChan, Term: ref}
	case *ssa.Slice:
		f.setVal(x, f.sliceOp(x))
	case *ssa.SliceToArrayPointer:
		s := f.val(x.X)
		n := x.Type().(*types.Pointer).Elem().Underlying().(*types.Array).Len()
		f.oblige("slice", sApp("bvsge", s.Sub[2].Term, bv64(n)), x.Pos(), "slice to array pointer: length")
		f.vals[x] = &SVal{T: x.Type(), K: KPtr, Term: s.Sub[0].Term, Off: s.Sub[1].Term}
	case *ssa.Range:
		f.vals[x] = &SVal{T: x.Type(), K: KOpaque, Term: "rangeiter", Sub: []*SVal{f.val(x.X)}}
	case *ssa.Next:
		f.setVal(x, f.next(x))
	case *ssa.Select:
		g.note("%s: select statement abstracted (any ready case; received values unconstrained)", f.fn.String())
		sv := g.freshVal(x.Type(), x.Name())
		// the chosen index is one of the cases (or -1 for a non-blocking select's default)
		idx := sv.Sub[0].Term
		lo := bv64(0)
		if !x.Blocking {
			lo = bv64(-1)
		}
		g.assume(f.curReach, sAnd(sApp("bvsle", lo, idx), sApp("bvslt", idx, bv64(int64(len(x.States))))))
		// ghost: the chosen receive case counts one more value taken from its channel
		ev := f.chanEvent()
		for i, st := range x.States {
			if st.Dir == types.RecvOnly {
				f.countRecv(f.val(st.Chan), sEq(idx, bv64(int64(i))), ev)
				if !x.Blocking {
					f.notePoll(f.val(st.Chan), ev)
				}
			}
		}
		f.setVal(x, sv)
	case *ssa.Store:
		p := f.val(x.Addr)
		v := f.coerce(f.val(x.Val), x.Val.Type())
		et := x.Addr.Type().Underlying().(*types.Pointer).Elem()
		f.checkStore(p, et, x.Pos())
		f.checkImmutable(x, p)
		g.store(f.curState, p, et, v)
	case *ssa.MapUpdate:
		f.mapUpdate(x)
	case *ssa.If, *ssa.Jump:
	case *ssa.Return:
		var vals []*SVal
		for i, r := range x.Results {
			vals = append(vals, f.coerce(f.val(r), f.fn.Signature.Results().At(i).Type()))
		}
		f.rets = append(f.rets, retInfo{f.curReach, vals, f.curState, x.Pos(), f.curBlock})
	case *ssa.Panic:
		if f.contract != nil && f.contract.MayPanic && f.isTop {
			f.curReach = "false"
			return
		}
		f.oblige("panic", "false", x.Pos(), "explicit panic reachable")
		f.curReach = "false"
	case *ssa.Go:
		g.note("%s: go statement abstracted (spawned goroutine's effects not modelled)", f.fn.String())
	case *ssa.Defer:
		if f.curBlock.Index != 0 && !f.curBlock.Dominates(f.fn.Blocks[len(f.fn.Blocks)-1]) {
			g.note("%s: conditional defer abstracted", f.fn.String())
		}
		f.defers = append(f.defers, x)
		// evaluate arguments now (Go semantics)
		for _, a := range x.Call.Args {
			_ = f.val(a)
		}
	case *ssa.RunDefers:
		for i := len(f.defers) - 1; i >= 0; i-- {
			d := f.defers[i]
			f.call(d, &d.Call)
		}
	case *ssa.Send:
		g.note("%s: channel send abstracted", f.fn.String())
	default:
		panic(unsupported(fmt.Sprintf("instruction %T in %s", ins, f.fn.Name())))
	}
}

func (f *Frame) nilCheck(p *SVal, pos token.Pos, what string) {
	if !f.g.P.NilChecks {
		return
	}
	f.oblige("nil", sNot(sEq(p.Term, bv64(0))), pos, what)
}

// ------------------------------------------------------------------ operators

func (f *Frame) binop(op token.Token, a, b *SVal, rt types.Type, pos token.Pos) *SVal {
	g := f.g
	switch a.K {
	case KInt:
		if b.K != KInt {
			panic(unsupported("mixed binop"))
		}
		bits, signed := intInfo(a.T)
		sel := func(s, u string) string {
			if signed {
				return s
			}
			return u
		}
		switch op {
		case token.SHL, token.SHR:
			// shift count may have a different type
			cb, cs := intInfo(b.T)
			cnt := b.Term
			if cs {
				f.oblige("shift", sApp("bvsge", cnt, bvLit(big.NewInt(0), cb)), pos, "negative shift count")
			}
			var c2 string
			switch {
			case cb == bits:
				c2 = cnt
			case cb < bits:
				c2 = fmt.Sprintf("((_ zero_extend %d) %s)", bits-cb, cnt)
			default:
				// saturate
				lim := bvLit(big.NewInt(int64(bits)), cb)
				c2 = sIte(sApp("bvuge", cnt, lim), bvLit(big.NewInt(int64(bits)), bits), fmt.Sprintf("((_ extract %d 0) %s)", bits-1, cnt))
			}
			o := "bvshl"
			if op == token.SHR {
				o = sel("bvashr", "bvlshr")
			}
			return scalar(rt, KInt, sApp(o, a.Term, c2))
		}
		bt := f.coerce(b, a.T).Term
		if bb, _ := intInfo(b.T); bb != bits {
			bt = convInt(b.Term, b.T, a.T)
		}
		ar := func(o string) *SVal { return scalar(rt, KInt, sApp(o, a.Term, bt)) }
		cmp := func(o string) *SVal { return scalar(rt, KBool, sApp(o, a.Term, bt)) }
		switch op {
		case token.ADD:
			return ar("bvadd")
		case token.SUB:
			return ar("bvsub")
		case token.MUL:
			return ar("bvmul")
		case token.QUO:
			f.oblige("div", sNot(sEq(bt, bvLit(big.NewInt(0), bits))), pos, "division by zero")
			return ar(sel("bvsdiv", "bvudiv"))
		case token.REM:
			f.oblige("div", sNot(sEq(bt, bvLit(big.NewInt(0), bits))), pos, "division by zero")
			return ar(sel("bvsrem", "bvurem"))
		case token.AND:
			return ar("bvand")
		case token.OR:
			return ar("bvor")
		case token.XOR:
			return ar("bvxor")
		case token.AND_NOT:
			return scalar(rt, KInt, sApp("bvand", a.Term, sApp("bvnot", bt)))
		case token.EQL:
			return scalar(rt, KBool, sEq(a.Term, bt))
		case token.NEQ:
			return scalar(rt, KBool, sNot(sEq(a.Term, bt)))
		case token.LSS:
			return cmp(sel("bvslt", "bvult"))
		case token.LEQ:
			return cmp(sel("bvsle", "bvule"))
		case token.GTR:
			return cmp(sel("bvsgt", "bvugt"))
		case token.GEQ:
			return cmp(sel("bvsge", "bvuge"))
		}
	case KBool:
		switch op {
		case token.EQL:
			return scalar(rt, KBool, sEq(a.Term, b.Term))
		case token.NEQ:
			return scalar(rt, KBool, sNot(sEq(a.Term, b.Term)))
		case token.AND, token.LAND:
			return scalar(rt, KBool, sAnd(a.Term, b.Term))
		case token.OR, token.LOR:
			return scalar(rt, KBool, sOr(a.Term, b.Term))
		}
	case KString:
		g.usedStr = true
		switch op {
		case token.ADD:
			r := sApp("str_cat", a.Term, b.Term)
			// ground instance of the concatenation-length axiom (the quantified axiom is only available in
			// the full stage)
			if g.inQuant == 0 {
				sum := sApp("bvadd", sApp("strlen", a.Term), sApp("strlen", b.Term))
				g.assume(f.curReach, sImp(sApp("bvsle", sum, "#x0001000000000000"), sEq(sApp("strlen", r), sum)))
				g.assume(f.curReach, sAnd(sApp("bvsle", bv64(0), sApp("strlen", a.Term)), sApp("bvsle", sApp("strlen", a.Term), "#x0001000000000000"), sApp("bvsle", bv64(0), sApp("strlen", b.Term)), sApp("bvsle", sApp("strlen", b.Term), "#x0001000000000000")))
			}
			return scalar(rt, KString, r)
		case token.EQL:
			return scalar(rt, KBool, sEq(a.Term, b.Term))
		case token.NEQ:
			return scalar(rt, KBool, sNot(sEq(a.Term, b.Term)))
		default:
			return scalar(rt, KBool, g.fresh("strcmp", SBool))
		}
	case KFloat:
		if kindOf(rt) == KBool {
			return scalar(rt, KBool, g.fresh("fcmp", SBool))
		}
		return scalar(rt, KFloat, g.fresh("fop", SF64))
	}
	switch op {
	case token.EQL, token.NEQ:
		bb := b
		if a.K != b.K {
			bb = f.coerce(b, a.T)
			if bb.K != a.K {
				a2 := f.coerce(a, b.T)
				if a2.K == b.K {
					a, bb = a2, b
				}
			}
		}
		e := eqVal(a, bb)
		if op == token.NEQ {
			e = sNot(e)
		}
		return scalar(rt, KBool, e)
	}
	panic(unsupported(fmt.Sprintf("binop %s on %s", op, a.T)))
}

func (f *Frame) unop(x *ssa.UnOp) *SVal {
	g := f.g
	v := f.val(x.X)
	switch x.Op {
	case token.MUL: // load
		et := x.X.Type().Underlying().(*types.Pointer).Elem()
		f.nilCheck(v, x.Pos(), "load through nil pointer")
		st := f.curState
		if v.Imm {
			st = g.immState()
		}
		r := g.load(st, v, et)
		if gl, ok := x.X.(*ssa.Global); ok && v.Imm && r.K == KIface {
			if id := g.P.errGlobals[gl.String()]; id > 0 {
				// sentinel errors created by errors.New/fmt.Errorf in package init: non-nil, pairwise distinct
				g.note("package-level errors initialised by errors.New/fmt.Errorf and never reassigned are non-nil and pairwise distinct")
				tag := bvLit(big.NewInt(int64(g.W.typeTag(types.NewPointer(types.NewNamed(types.NewTypeName(0, nil, "errors.errorString", nil), types.NewStruct(nil, nil), nil))))), 32)
				g.assume("true", sAnd(sEq(r.Sub[0].Term, tag), sEq(r.Sub[1].Term, bv64(int64(1<<39)+int64(id)<<4))))
			}
		}
		if hasRefs(et) {
			if ver := g.versionOf(st, v, et); ver != "" {
				g.assume(f.curReach, g.refFactsAt(f.curState, ver, v, r))
			} else {
				g.assume(f.curReach, g.refFacts(f.curState, r))
			}
		}
		g.assume(f.curReach, g.typeInv(r))
		return r
	case token.NOT:
		return scalar(x.Type(), KBool, sNot(v.Term))
	case token.SUB:
		if v.K == KFloat {
			return scalar(x.Type(), KFloat, g.fresh("fneg", SF64))
		}
		return scalar(x.Type(), KInt, sApp("bvneg", v.Term))
	case token.XOR:
		return scalar(x.Type(), KInt, sApp("bvnot", v.Term))
	case token.ARROW:
		g.note("%s: channel receive abstracted (value unconstrained)", f.fn.String())
		f.countRecv(v, "true", f.chanEvent())
		r := g.freshVal(x.Type(), x.Name())
		g.assume(f.curReach, g.typeInv(r))
		return r
	}
	panic(unsupported("unop " + x.Op.String()))
}

// Ghost state about channel operations of the executing goroutine (receive statements and select statements of
// the code under verification; code the verifier does not see into forgets all of it like any other state):
//   $recv[ch]      how many values were taken from ch
//   $ev            a counter of channel operations (each receive or select is one event)
//   $firstrecv[ch] the event at which a value was first taken from ch (0: never)
//   $lastpoll[ch]  the event of the last non-blocking select that offered to receive from ch (0: never)
const recvHeap = "$recv"
const firstRecvHeap = "$firstrecv"
const lastPollHeap = "$lastpoll"
const evHeap = "$ev"

var recvSort = arrSort(SBV64, SBV64)

func chanGhostNames() map[string]Sort {
	return map[string]Sort{recvHeap: recvSort, firstRecvHeap: recvSort, lastPollHeap: recvSort, evHeap: SBV64}
}

// chanEvent starts a channel operation: the event counter advances; returns the new event number.
func (f *Frame) chanEvent() string {
	g := f.g
	old := g.heapGet(f.curState, evHeap, SBV64)
	ev := g.define("ev", SBV64, sApp("bvadd", old, bv64(1)))
	// a ghost counter is a mathematical integer: it does not wrap
	g.assume(f.curReach, sAnd(sApp("bvsle", bv64(0), old), sApp("bvslt", old, ev)))
	g.heapSet(f.curState, evHeap, SBV64, ev)
	return ev
}

func (f *Frame) countRecv(ch *SVal, cond string, ev string) {
	g := f.g
	upd := func(name string, newVal func(h string) string) {
		h := g.heapGet(f.curState, name, recvSort)
		n := sStore(h, ch.Term, newVal(h))
		if cond == "true" {
			g.heapSet(f.curState, name, recvSort, n)
		} else {
			g.heapSet(f.curState, name, recvSort, sIte(cond, n, h))
		}
	}
	upd(recvHeap, func(h string) string { return sApp("bvadd", sSel(h, ch.Term), bv64(1)) })
	upd(firstRecvHeap, func(h string) string { return sIte(sEq(sSel(h, ch.Term), bv64(0)), ev, sSel(h, ch.Term)) })
}

func (f *Frame) notePoll(ch *SVal, ev string) {
	g := f.g
	h := g.heapGet(f.curState, lastPollHeap, recvSort)
	g.heapSet(f.curState, lastPollHeap, recvSort, sStore(h, ch.Term, ev))
}

func hasRefs(t types.Type) bool {
	switch kindOf(t) {
	case KPtr, KMap, KSlice:
		return true
	case KStruct:
		st := structOf(t)
		for i := 0; i < st.NumFields(); i++ {
			if hasRefs(st.Field(i).Type()) {
				return true
			}
		}
	}
	return false
}

func (f *Frame) convert(v *SVal, t types.Type, pos token.Pos) *SVal {
	g := f.g
	fk, tk := v.K, kindOf(t)
	switch {
	case fk == KInt && tk == KInt:
		r := scalar(t, KInt, convInt(v.Term, v.T, t))
		if v.Const != nil {
			return g.constVal(t, v.Const)
		}
		return r
	case fk == KSlice && tk == KString:
		g.usedStr = true
		h := g.heapGet(f.curState, elemFam(tByte), g.elemHeapSort(tByte))
		g.logStrOfBytes(v.Sub[0].Term, v.Sub[1].Term, v.Sub[2].Term)
		return scalar(t, KString, sApp("str_of_bytes", sSel(h, v.Sub[0].Term), v.Sub[1].Term, v.Sub[2].Term))
	case fk == KString && tk == KSlice:
		g.usedStr = true
		base := g.newRef(f.curState, f.curReach, "bytes")
		srt := g.elemHeapSort(tByte)
		h := g.heapGet(f.curState, elemFam(tByte), srt)
		arr := sApp("str_bytes", v.Term)
		g.heapSet(f.curState, elemFam(tByte), srt, sStore(h, base, arr))
		ln := sApp("strlen", v.Term)
		return &SVal{T: t, K: KSlice, Sub: []*SVal{mkInt(base), mkInt(bv64(0)), mkInt(ln), mkInt(ln)}}
	case fk == KInt && tk == KString:
		g.usedStr = true
		return scalar(t, KString, g.fresh("runestr", SStr))
	case fk == KFloat || tk == KFloat:
		if tk == KFloat {
			return scalar(t, KFloat, g.fresh("tofloat", SF64))
		}
		return scalar(t, tk, g.fresh("fromfloat", g.W.scalarSort(t)))
	case tk == KUnsafePtr || fk == KUnsafePtr:
		g.note("%s: unsafe.Pointer conversion (pointer provenance dropped)", f.fn.String())
		return &SVal{T: t, K: tk, Term: toBV64(v)}
	case fk == tk:
		return f.coerce(v, t)
	}
	panic(unsupported(fmt.Sprintf("conversion %s -> %s", v.T, t)))
}

func (f *Frame) makeIface(v *SVal, it types.Type) *SVal {
	g := f.g
	tag := bvLit(big.NewInt(int64(g.W.typeTag(v.T))), 32)
	var payload string
	switch v.K {
	case KPtr, KMap, KChan, KFunc, KUnsafePtr:
		payload = v.Term
	case KInt:
		b, _ := intInfo(v.T)
		if b == 64 {
			payload = v.Term
		} else {
			payload = fmt.Sprintf("((_ zero_extend %d) %s)", 64-b, v.Term)
		}
	case KBool:
		payload = sIte(v.Term, bv64(1), bv64(0))
	default:
		// box: store the value in a fresh cell so a type assertion can read it back
		ref := g.newRef(f.curState, f.curReach, "box")
		p := &SVal{T: types.NewPointer(v.T), K: KPtr, Term: ref}
		if !isAggregate(v.T) {
			p.Prov = &Prov{Kind: 1, Fam: "C|" + typeKey(v.T), Idx: ref}
		}
		func() {
			defer func() {
				if r := recover(); r != nil {
					if _, ok := r.(error); !ok {
						panic(r)
					}
				}
			}()
			g.store(f.curState, p, v.T, v)
		}()
		payload = ref
	}
	return &SVal{T: it, K: KIface, Sub: []*SVal{scalar(tUint32, KInt, tag), scalar(tUPtr, KInt, payload)}}
}

func (f *Frame) unbox(iv *SVal, t types.Type) *SVal {
	g := f.g
	payload := iv.Sub[1].Term
	switch kindOf(t) {
	case KPtr, KMap, KChan, KFunc, KUnsafePtr:
		return scalar(t, kindOf(t), payload)
	case KInt:
		return scalar(t, KInt, convInt(payload, tUint64, t))
	case KBool:
		return scalar(t, KBool, sEq(payload, bv64(1)))
	}
	p := &SVal{T: types.NewPointer(t), K: KPtr, Term: payload}
	if !isAggregate(t) {
		p.Prov = &Prov{Kind: 1, Fam: "C|" + typeKey(t), Idx: payload}
	}
	return g.load(f.curState, p, t)
}

func (f *Frame) typeAssert(x *ssa.TypeAssert) *SVal {
	g := f.g
	iv := f.val(x.X)
	at := x.AssertedType
	var ok string
	var val *SVal
	if types.IsInterface(at) {
		// interface-to-interface: holds for exactly the dynamic types implementing at
		okc := g.fresh("implements", SBool)
		ok = sAnd(sNot(sEq(iv.Sub[0].Term, bvLit(big.NewInt(0), 32))), okc)
		// known tags decide
		for k, id := range g.W.typeTags {
			_ = k
			tt := g.W.tagTypes[id-1]
			impl := types.Implements(tt, at.Underlying().(*types.Interface))
			g.assume("true", sImp(sEq(iv.Sub[0].Term, bvLit(big.NewInt(int64(id)), 32)), sEq(okc, fmt.Sprint(impl))))
		}
		val = &SVal{T: at, K: KIface, Sub: iv.Sub}
	} else {
		tag := bvLit(big.NewInt(int64(g.W.typeTag(at))), 32)
		ok = sEq(iv.Sub[0].Term, tag)
		val = f.unbox(iv, at)
	}
	if x.CommaOk {
		z := g.zero(at)
		return &SVal{T: x.Type(), K: KTuple, Sub: []*SVal{g.iteVal(ok, val, z), mkBool(ok)}}
	}
	f.oblige("typeassert", ok, x.Pos(), "type assertion to "+at.String())
	return val
}

func (f *Frame) indexVal(x *ssa.Index) *SVal {
	v := f.val(x.X)
	i := idx64(f.val(x.Index))
	switch v.K {
	case KArray:
		n := v.T.Underlying().(*types.Array).Len()
		f.oblige("index", sAnd(sApp("bvsle", bv64(0), i), sApp("bvslt", i, bv64(n))), x.Pos(), "array index in range")
		return scalar(x.Type(), kindOf(x.Type()), sSel(v.Term, i))
	case KString:
		f.g.usedStr = true
		f.oblige("index", sAnd(sApp("bvsle", bv64(0), i), sApp("bvslt", i, sApp("strlen", v.Term))), x.Pos(), "string index in range")
		return scalar(x.Type(), KInt, sApp("strat", v.Term, i))
	}
	panic(unsupported("Index on " + v.T.String()))
}

func (f *Frame) indexAddr(x *ssa.IndexAddr) *SVal {
	g := f.g
	v := f.val(x.X)
	i := idx64(f.val(x.Index))
	switch xt := x.X.Type().Underlying().(type) {
	case *types.Slice:
		f.oblige("index", sAnd(sApp("bvsle", bv64(0), i), sApp("bvslt", i, v.Sub[2].Term)), x.Pos(), "slice index in range")
		r := g.sliceElemAddr(v, i)
		return r
	case *types.Pointer:
		at := xt.Elem().Underlying().(*types.Array)
		f.oblige("index", sAnd(sApp("bvsle", bv64(0), i), sApp("bvslt", i, bv64(at.Len()))), x.Pos(), "array index in range")
		idx := i
		if v.Off != "" {
			idx = sApp("bvadd", v.Off, i)
		}
		r := g.elemAddr(v.Term, idx, at.Elem())
		r.Imm = v.Imm
		return r
	}
	panic(unsupported("IndexAddr on " + x.X.Type().String()))
}

func (f *Frame) sliceOp(x *ssa.Slice) *SVal {
	g := f.g
	v := f.val(x.X)
	get := func(e ssa.Value) string {
		if e == nil {
			return ""
		}
		return idx64(f.val(e))
	}
	lo, hi, mx := get(x.Low), get(x.High), get(x.Max)
	if lo == "" {
		lo = bv64(0)
	}
	switch xt := x.X.Type().Underlying().(type) {
	case *types.Slice:
		ln, cp := v.Sub[2].Term, v.Sub[3].Term
		if hi == "" {
			hi = ln
		}
		top := cp
		if mx != "" {
			top = mx
			f.oblige("slice", sApp("bvsle", mx, cp), x.Pos(), "slice max within capacity")
		}
		f.oblige("slice", sAnd(sApp("bvsle", bv64(0), lo), sApp("bvsle", lo, hi), sApp("bvsle", hi, top)), x.Pos(), "slice bounds in range")
		return &SVal{T: x.Type(), K: KSlice, Sub: []*SVal{v.Sub[0], mkInt(sApp("bvadd", v.Sub[1].Term, lo)), mkInt(sApp("bvsub", hi, lo)), mkInt(sApp("bvsub", top, lo))}}
	case *types.Basic: // string
		g.usedStr = true
		ln := sApp("strlen", v.Term)
		if hi == "" {
			hi = ln
		}
		f.oblige("slice", sAnd(sApp("bvsle", bv64(0), lo), sApp("bvsle", lo, hi), sApp("bvsle", hi, ln)), x.Pos(), "string slice bounds in range")
		return scalar(x.Type(), KString, sApp("str_sub", v.Term, lo, hi))
	case *types.Pointer:
		at := xt.Elem().Underlying().(*types.Array)
		n := bv64(at.Len())
		if hi == "" {
			hi = n
		}
		top := n
		if mx != "" {
			top = mx
			f.oblige("slice", sApp("bvsle", mx, n), x.Pos(), "slice max within array")
		}
		f.oblige("slice", sAnd(sApp("bvsle", bv64(0), lo), sApp("bvsle", lo, hi), sApp("bvsle", hi, top)), x.Pos(), "array slice bounds in range")
		off := lo
		if v.Off != "" {
			off = sApp("bvadd", v.Off, lo)
		}
		if !elemTwoLevel(at.Elem()) {
			// composite elements: address arithmetic with off in elements
			return &SVal{T: x.Type(), K: KSlice, Sub: []*SVal{mkInt(v.Term), mkInt(off), mkInt(sApp("bvsub", hi, lo)), mkInt(sApp("bvsub", top, lo))}}
		}
		return &SVal{T: x.Type(), K: KSlice, Sub: []*SVal{mkInt(v.Term), mkInt(off), mkInt(sApp("bvsub", hi, lo)), mkInt(sApp("bvsub", top, lo))}}
	}
	panic(unsupported("Slice on " + x.X.Type().String()))
}

func (f *Frame) makeSlice(x *ssa.MakeSlice) *SVal {
	g := f.g
	ln := idx64(f.val(x.Len))
	cp := idx64(f.val(x.Cap))
	f.oblige("makeslice", sAnd(sApp("bvsle", bv64(0), ln), sApp("bvsle", ln, cp), sApp("bvsle", cp, bv64(1<<maxLenBits))), x.Pos(), "make: 0 <= len <= cap")
	base := g.newRef(f.curState, f.curReach, x.Name())
	et := x.Type().Underlying().(*types.Slice).Elem()
	if elemTwoLevel(et) {
		srt := g.elemHeapSort(et)
		h := g.heapGet(f.curState, elemFam(et), srt)
		g.heapSet(f.curState, elemFam(et), srt, sStore(h, base, g.constArray(arrSort(SBV64, g.W.scalarSort(et)), g.W.scalarSort(et), g.zeroScalar(et))))
	} else {
		g.note("%s: make([]%s): zero contents of composite elements not modelled", f.fn.String(), et)
	}
	return &SVal{T: x.Type(), K: KSlice, Sub: []*SVal{mkInt(base), mkInt(bv64(0)), mkInt(ln), mkInt(cp)}}
}

// ------------------------------------------------------------------ maps

func mapFams(mt types.Type) (dom, val, ln string) {
	k := typeKey(mt)
	return "MD|" + k, "MV|" + k, "ML|" + k
}

func (g *Gen) mapKeySort(mt *types.Map) Sort {
	kt := mt.Key()
	if n := packedKeyLen(kt); n > 0 {
		return Sort(fmt.Sprintf("(_ BitVec %d)", 8*n))
	}
	if !isScalarType(kt) {
		panic(unsupported("map with composite key type " + kt.String()))
	}
	return g.W.scalarSort(kt)
}

// packedKeyLen: map keys of type [N]byte (N <= 32) are packed into one bit-vector of 8N bits - exactly
// Go's element-wise key equality, and a key sort every back end accepts (arrays indexed by arrays are not).
func packedKeyLen(kt types.Type) int64 {
	at, ok := kt.Underlying().(*types.Array)
	if !ok || at.Len() < 1 || at.Len() > 32 {
		return 0
	}
	if b, ok := at.Elem().Underlying().(*types.Basic); !ok || (b.Kind() != types.Uint8 && b.Kind() != types.Int8) {
		return 0
	}
	return at.Len()
}

// unpackArr: the array value (byte i = bits [8(n-i)-1 : 8(n-1-i)]) of a packed [n]byte.
func unpackArr(n int64, packed string, arrSrt Sort) string {
	tm := fmt.Sprintf("((as const %s) #x00)", arrSrt)
	for i := int64(0); i < n; i++ {
		hi := 8*(n-i) - 1
		tm = sStore(tm, bv64(i), fmt.Sprintf("((_ extract %d %d) %s)", hi, hi-7, packed))
	}
	return tm
}

// packedVal: a [n]byte value given by its packed bit-vector.
func (g *Gen) packedVal(t types.Type, packed string) *SVal {
	n := packedKeyLen(t)
	return &SVal{T: t, K: KArray, Term: unpackArr(n, packed, g.W.scalarSort(t)), Packed: packed}
}

// mapKey: the term under which key is looked up in a map of type mt.
func (g *Gen) mapKey(mt *types.Map, key *SVal) string {
	n := packedKeyLen(mt.Key())
	if n == 0 {
		return key.Term
	}
	if key.Packed != "" {
		return key.Packed
	}
	if n == 1 {
		return sSel(key.Term, bv64(0))
	}
	kt := key.Term
	if g.inQuant == 0 && len(kt) > 40 {
		kt = g.define("keyarr", g.W.scalarSort(mt.Key()), kt)
	}
	parts := make([]string, 0, n)
	for i := int64(0); i < n; i++ {
		parts = append(parts, sSel(kt, bv64(i)))
	}
	return "(concat " + strings.Join(parts, " ") + ")"
}

func (f *Frame) mapRead(st *State, m *SVal, mt *types.Map, key *SVal) (dom string, val *SVal) {
	g := f.g
	ks := g.mapKeySort(mt)
	fd, fv, _ := mapFams(mt)
	// keys looked up in the program, in a goal or in a hypothesis instance are instantiation candidates
	// for hypotheses quantified over keys of the same sort
	if g.inQuant == 0 && key.Const == nil && len(key.Term) <= 2500 {
		g.addNamed(key)
	}
	hd := g.heapGet(st, fd, arrSort(SBV64, arrSort(ks, SBool)))
	kterm := g.mapKey(mt, key)
	if g.inQuant == 0 && kterm != key.Term {
		kterm = g.define("mapkey", ks, kterm)
	}
	dom = sAnd(sNot(sEq(m.Term, bv64(0))), sSel(sSel(hd, m.Term), kterm))
	val = g.W.buildVal(mt.Elem(), "", func(path string, s Sort) string {
		h := g.heapGet(st, fv+"#"+path, arrSort(SBV64, arrSort(ks, s)))
		return sSel(sSel(h, m.Term), kterm)
	})
	return
}

func (f *Frame) lookup(x *ssa.Lookup) *SVal {
	g := f.g
	v := f.val(x.X)
	if v.K == KString {
		g.usedStr = true
		i := idx64(f.val(x.Index))
		f.oblige("index", sAnd(sApp("bvsle", bv64(0), i), sApp("bvslt", i, sApp("strlen", v.Term))), x.Pos(), "string index in range")
		return scalar(x.Type(), KInt, sApp("strat", v.Term, i))
	}
	mt := x.X.Type().Underlying().(*types.Map)
	key := f.coerce(f.val(x.Index), mt.Key())
	dom, val := f.mapRead(f.curState, v, mt, key)
	dom = g.define("indom", SBool, dom)
	r := g.iteVal(dom, val, g.zero(mt.Elem()))
	if hasRefs(mt.Elem()) {
		g.assume(f.curReach, g.refFacts(f.curState, r))
	}
	g.assume(f.curReach, g.typeInv(r))
	if x.CommaOk {
		return &SVal{T: x.Type(), K: KTuple, Sub: []*SVal{r, mkBool(dom)}}
	}
	return r
}

func (f *Frame) makeMap(x *ssa.MakeMap) *SVal {
	g := f.g
	mt := x.Type().Underlying().(*types.Map)
	ks := g.mapKeySort(mt)
	ref := g.newRef(f.curState, f.curReach, x.Name())
	fd, _, fl := mapFams(mt)
	ds := arrSort(SBV64, arrSort(ks, SBool))
	hd := g.heapGet(f.curState, fd, ds)
	g.heapSet(f.curState, fd, ds, sStore(hd, ref, fmt.Sprintf("((as const %s) false)", arrSort(ks, SBool))))
	ls := arrSort(SBV64, SBV64)
	hl := g.heapGet(f.curState, fl, ls)
	g.heapSet(f.curState, fl, ls, sStore(hl, ref, bv64(0)))
	return scalar(x.Type(), KMap, ref)
}

func (f *Frame) mapStore(m *SVal, mt *types.Map, key, val *SVal, pos token.Pos) {
	g := f.g
	ks := g.mapKeySort(mt)
	fd, fv, fl := mapFams(mt)
	f.checkMapWrite(m, mt, pos)
	ds := arrSort(SBV64, arrSort(ks, SBool))
	hd := g.heapGet(f.curState, fd, ds)
	kterm := g.mapKey(mt, key)
	if kterm != key.Term {
		kterm = g.define("mapkey", ks, kterm)
	}
	was := sSel(sSel(hd, m.Term), kterm)
	ls := arrSort(SBV64, SBV64)
	hl := g.heapGet(f.curState, fl, ls)
	g.heapSet(f.curState, fl, ls, sStore(hl, m.Term, sApp("bvadd", sSel(hl, m.Term), sIte(was, bv64(0), bv64(1)))))
	g.heapSet(f.curState, fd, ds, sStore(hd, m.Term, sStore(sSel(hd, m.Term), kterm, "true")))
	lv := g.W.leaves(mt.Elem())
	fvs := flatten(val)
	for i, l := range lv {
		srt := arrSort(SBV64, arrSort(ks, l.Sort))
		h := g.heapGet(f.curState, fv+"#"+l.Path, srt)
		g.heapSet(f.curState, fv+"#"+l.Path, srt, sStore(h, m.Term, sStore(sSel(h, m.Term), kterm, fvs[i])))
	}
}

func (f *Frame) mapDelete(m *SVal, mt *types.Map, key *SVal, pos token.Pos) {
	g := f.g
	ks := g.mapKeySort(mt)
	fd, _, fl := mapFams(mt)
	f.checkMapWrite(m, mt, pos)
	ds := arrSort(SBV64, arrSort(ks, SBool))
	hd := g.heapGet(f.curState, fd, ds)
	kterm := g.mapKey(mt, key)
	if kterm != key.Term {
		kterm = g.define("mapkey", ks, kterm)
	}
	was := sAnd(sNot(sEq(m.Term, bv64(0))), sSel(sSel(hd, m.Term), kterm))
	ls := arrSort(SBV64, SBV64)
	hl := g.heapGet(f.curState, fl, ls)
	g.heapSet(f.curState, fl, ls, sStore(hl, m.Term, sApp("bvsub", sSel(hl, m.Term), sIte(was, bv64(1), bv64(0)))))
	// deleting from a nil map is a no-op; the nil map's domain stays empty because lookups guard on m != 0
	g.heapSet(f.curState, fd, ds, sStore(hd, m.Term, sStore(sSel(hd, m.Term), kterm, "false")))
}

func (f *Frame) mapClear(m *SVal, mt *types.Map, pos token.Pos) {
	g := f.g
	ks := g.mapKeySort(mt)
	fd, _, fl := mapFams(mt)
	f.checkMapWrite(m, mt, pos)
	ds := arrSort(SBV64, arrSort(ks, SBool))
	hd := g.heapGet(f.curState, fd, ds)
	g.heapSet(f.curState, fd, ds, sStore(hd, m.Term, fmt.Sprintf("((as const %s) false)", arrSort(ks, SBool))))
	ls := arrSort(SBV64, SBV64)
	hl := g.heapGet(f.curState, fl, ls)
	g.heapSet(f.curState, fl, ls, sStore(hl, m.Term, bv64(0)))
}

func (f *Frame) mapUpdate(x *ssa.MapUpdate) {
	m := f.val(x.Map)
	mt := x.Map.Type().Underlying().(*types.Map)
	f.oblige("nilmap", sNot(sEq(m.Term, bv64(0))), x.Pos(), "assignment to entry in nil map")
	f.mapStore(m, mt, f.coerce(f.val(x.Key), mt.Key()), f.coerce(f.val(x.Value), mt.Elem()), x.Pos())
}

func (f *Frame) mapLen(st *State, m *SVal, mt *types.Map) string {
	g := f.g
	_, _, fl := mapFams(mt)
	hl := g.heapGet(st, fl, arrSort(SBV64, SBV64))
	return sIte(sEq(m.Term, bv64(0)), bv64(0), sSel(hl, m.Term))
}

func (f *Frame) next(x *ssa.Next) *SVal {
	g := f.g
	it := f.val(x.Iter)
	coll := it.Sub[0]
	tup := x.Type().(*types.Tuple)
	ok := g.fresh("next.ok", SBool)
	if x.IsString {
		g.usedStr = true
		i := g.fresh("next.i", SBV64)
		r := g.fresh("next.rune", SBV32)
		g.assume(f.curReach, sImp(ok, sAnd(sApp("bvsle", bv64(0), i), sApp("bvslt", i, sApp("strlen", coll.Term)))))
		return &SVal{T: tup, K: KTuple, Sub: []*SVal{mkBool(ok), mkInt(i), scalar(tup.At(2).Type(), KInt, r)}}
	}
	mt := coll.T.Underlying().(*types.Map)
	key := g.freshVal(mt.Key(), "next.k")
	dom, val := f.mapRead(f.curState, coll, mt, key)
	g.assume(f.curReach, sImp(ok, dom))
	v := g.nameVal("next.v", val)
	if hasRefs(mt.Elem()) {
		g.assume(f.curReach, g.refFacts(f.curState, v))
	}
	g.assume(f.curReach, g.typeInv(v))
	g.assume(f.curReach, g.typeInv(key))
	return &SVal{T: tup, K: KTuple, Sub: []*SVal{mkBool(ok), key, v}}
}

// ------------------------------------------------------------------ non-escaping locals

// privateAllocs: the Alloc instructions of f.fn whose address is only ever used to load from, store to
// or address a field/element of the variable. No callee, goroutine or heap cell can hold such an
// address, so a callee's "modifies everything" cannot change the variable.
func (f *Frame) privateAllocs() map[*ssa.Alloc]bool {
	if f.privDone {
		return f.privAllocs
	}
	f.privDone = true
	f.privAllocs = map[*ssa.Alloc]bool{}
	if f.fn == nil {
		return f.privAllocs
	}
	var addrOnly func(v ssa.Value, depth int) bool
	addrOnly = func(v ssa.Value, depth int) bool {
		if depth > 8 {
			return false
		}
		refs := v.Referrers()
		if refs == nil {
			return false
		}
		for _, r := range *refs {
			switch x := r.(type) {
			case *ssa.DebugRef:
			case *ssa.UnOp:
				if x.Op != token.MUL {
					return false
				}
			case *ssa.Store:
				if x.Val == v {
					return false
				}
			case *ssa.FieldAddr:
				if !addrOnly(x, depth+1) {
					return false
				}
			case *ssa.IndexAddr:
				if x.X != v || !addrOnly(x, depth+1) {
					return false
				}
			case *ssa.MakeClosure:
				// captured by a closure that is only ever deferred in this function: the closure runs when
				// this function returns and nobody else can hold it, so the variable stays private as long
				// as the closure body itself only loads from / stores to it
				crefs := x.Referrers()
				if crefs == nil {
					return false
				}
				for _, cr := range *crefs {
					switch cr.(type) {
					case *ssa.Defer, *ssa.DebugRef:
					default:
						return false
					}
				}
				cf, ok := x.Fn.(*ssa.Function)
				if !ok {
					return false
				}
				for bi, bv := range x.Bindings {
					if bv == v {
						if bi >= len(cf.FreeVars) || !addrOnly(cf.FreeVars[bi], depth+1) {
							return false
						}
					}
				}
			default:
				return false
			}
		}
		return true
	}
	f.privMaps = map[*ssa.MakeMap]bool{}
	for _, b := range f.fn.Blocks {
		for _, ins := range b.Instrs {
			if a, ok := ins.(*ssa.Alloc); ok && addrOnly(a, 0) {
				f.privAllocs[a] = true
			}
			// a map made here and only ever looked up, updated, measured, ranged over or deleted from in this
			// function: no callee can hold it
			if m, ok := ins.(*ssa.MakeMap); ok {
				priv := true
				if refs := m.Referrers(); refs != nil {
					for _, r := range *refs {
						switch x := r.(type) {
						case *ssa.DebugRef:
						case *ssa.Lookup:
							if x.X != ssa.Value(m) {
								priv = false
							}
						case *ssa.MapUpdate:
							if x.Map != ssa.Value(m) || x.Key == ssa.Value(m) || x.Value == ssa.Value(m) {
								priv = false
							}
						case *ssa.Range:
						case *ssa.Call:
							if bi, ok := x.Call.Value.(*ssa.Builtin); !ok || (bi.Name() != "len" && bi.Name() != "delete") {
								priv = false
							}
						default:
							priv = false
						}
					}
				}
				if priv {
					f.privMaps[m] = true
				}
			}
		}
	}
	return f.privAllocs
}

// keepPrivateLocals copies the current values of the non-escaping local variables of f (and of the frames
// f is inlined into) from pre into post, after post was produced by a havoc of everything.
func (f *Frame) keepPrivateLocals(pre, post *State) {
	g := f.g
	for fr := f; fr != nil; fr = fr.parent {
		fr.privateAllocs()
		for m := range fr.privMaps {
			mv, ok := fr.vals[m]
			if !ok {
				continue
			}
			mt := m.Type().Underlying().(*types.Map)
			func() {
				defer func() {
					if r := recover(); r != nil {
						if _, ok := r.(unsupportedErr); !ok {
							panic(r)
						}
					}
				}()
				ks := g.mapKeySort(mt)
				fd, fv, fl := mapFams(mt)
				ds := arrSort(SBV64, arrSort(ks, SBool))
				g.heapSet(post, fd, ds, sStore(g.heapGet(post, fd, ds), mv.Term, sSel(g.heapGet(pre, fd, ds), mv.Term)))
				ls := arrSort(SBV64, SBV64)
				g.heapSet(post, fl, ls, sStore(g.heapGet(post, fl, ls), mv.Term, sSel(g.heapGet(pre, fl, ls), mv.Term)))
				for _, l := range g.W.leaves(mt.Elem()) {
					srt := arrSort(SBV64, arrSort(ks, l.Sort))
					g.heapSet(post, fv+"#"+l.Path, srt, sStore(g.heapGet(post, fv+"#"+l.Path, srt), mv.Term, sSel(g.heapGet(pre, fv+"#"+l.Path, srt), mv.Term)))
				}
			}()
		}
		for a := range fr.privateAllocs() {
			p, ok := fr.vals[a]
			if !ok {
				continue
			}
			et := a.Type().(*types.Pointer).Elem()
			func() {
				defer func() {
					if r := recover(); r != nil {
						if _, ok := r.(unsupportedErr); !ok {
							panic(r)
						}
					}
				}()
				g.store(post, p, et, g.load(pre, p, et))
			}()
		}
	}
}

// keepLoopInvariantLocals: at a loop head whose body may write anything, the non-escaping locals that the
// loop body itself never stores to keep their values.
func (f *Frame) keepLoopInvariantLocals(li *loopInfo, pre, post *State) {
	g := f.g
	written := map[*ssa.Alloc]bool{}
	var root func(v ssa.Value) *ssa.Alloc
	root = func(v ssa.Value) *ssa.Alloc {
		switch x := v.(type) {
		case *ssa.Alloc:
			return x
		case *ssa.FieldAddr:
			return root(x.X)
		case *ssa.IndexAddr:
			return root(x.X)
		}
		return nil
	}
	for b := range li.body {
		for _, ins := range b.Instrs {
			if st, ok := ins.(*ssa.Store); ok {
				if a := root(st.Addr); a != nil {
					written[a] = true
				}
			}
		}
	}
	for a := range f.privateAllocs() {
		if written[a] {
			continue
		}
		p, ok := f.vals[a]
		if !ok {
			continue
		}
		et := a.Type().(*types.Pointer).Elem()
		func() {
			defer func() {
				if r := recover(); r != nil {
					if _, ok := r.(unsupportedErr); !ok {
						panic(r)
					}
				}
			}()
			g.store(post, p, et, g.load(pre, p, et))
		}()
	}
}

// checkImmutable: "immutable T" in the contract of the function being verified - an object of struct type T
// may only be written while it is new in the current loop iteration (or, outside loops, new in this call):
// once it has existed at an iteration head it may have been published to other goroutines.
func (f *Frame) checkImmutable(x *ssa.Store, p *SVal) {
	top := f
	for top.parent != nil {
		top = top.parent
	}
	if top.contract == nil || len(top.contract.Immutable) == 0 {
		return
	}
	g := f.g
	hit := ""
	consider := func(t types.Type) {
		if n, ok := types.Unalias(t).(*types.Named); ok {
			for _, im := range top.contract.Immutable {
				if n.Obj().Name() == im {
					hit = im
				}
			}
		}
	}
	var walk func(v ssa.Value, depth int)
	walk = func(v ssa.Value, depth int) {
		if depth > 8 {
			return
		}
		if pt, ok := v.Type().Underlying().(*types.Pointer); ok {
			consider(pt.Elem())
		}
		switch a := v.(type) {
		case *ssa.FieldAddr:
			walk(a.X, depth+1)
		case *ssa.IndexAddr:
			walk(a.X, depth+1)
		}
	}
	walk(x.Addr, 0)
	if hit == "" {
		return
	}
	// reference watermark: head of the innermost cut loop of the top-level function, else function entry
	ref := g.heapGet(g.entry, allocHeap, allocSort)
	goal := ""
	if f == top {
		var inner *loopInfo
		for _, li := range f.loops {
			if li != nil && li.body[f.curBlock] && li.headSt != nil && (inner == nil || len(li.body) < len(inner.body)) {
				inner = li
			}
		}
		if inner != nil {
			ref = g.heapGet(inner.headSt, allocHeap, allocSort)
		}
		// the object is made by an allocation of this very function that lies inside the loop body (or, outside
		// any loop, anywhere in the function): the allocation dominates the store, so the object written is the
		// one made in the current iteration
		if a := rootAlloc(x.Addr); a != nil && (inner == nil || inner.body[a.Block()]) {
			goal = "true"
		}
	}
	if goal == "" {
		goal = sApp("bvuge", objOf(p.Term), ref)
	}
	o := f.oblige("immutable", goal, x.Pos(), "write to an object of immutable type "+hit+" that is not new in this iteration")
	o.Clause = "immutable " + hit
}
