package main

import (
	"fmt"
	"sort"
	"go/constant"
	"go/token"
	"go/types"
	"math/big"
	"strings"

	"golang.org/x/tools/go/ssa"
)

// ---------------------------------------------------------------------------
// Contract expression evaluation over a symbolic state
// ---------------------------------------------------------------------------

type Env struct {
	g       *Gen
	f       *Frame
	pkg     *types.Package
	vars    map[string]*SVal
	cur     *State
	old     *State
	loopPre *State
	curParams bool // program-point clause (loop invariant, call-site): a reassigned parameter's name means its current value
	loopHead *State // state at the head of the current iteration of the innermost enclosing loop (call-site clauses)
	phiSub  map[*ssa.Phi]*SVal
	at      *ssa.BasicBlock
	atIdx   int // instruction index inside 'at' up to which definitions count (-1/0: phis only)
	reach   string
	depth   int
	// quantifier handling
	mode   int    // 0 plain, 1 assumption, 2 goal
	pol    int    // +1 positive, -1 negative, 0 unknown
	guard  string // conjunction of antecedents on the path (for instances)
	noInst bool
	qbuild *QHyp
}

// QHyp: a universally quantified hypothesis, instantiated on demand.
type QHyp struct {
	vars   []QVar
	types  []types.Type
	syms   []string
	body   Expr
	env    *Env
	guard  string
	reads  map[int][]readRec // var index -> element reads indexed by that variable
	done   map[string]bool
	text   string
	seq    int
	negate bool // the hypothesis is "not exists vars. body": instances assert the negated body
}

type readRec struct {
	fam, base, off, rel, idx string
	origin                   string
}

type modItem struct {
	kind   string // "loc" (one-level family at idx), "elemAll", "elemRange", "global", "map", "star", "fam"
	fam    string
	idx    string
	base   string
	lo, hi string
	t      types.Type // stored type (for leaves)
	text   string
}

func (e *Env) asAssume(reach string) *Env {
	e.mode, e.pol, e.guard, e.noInst = 1, 1, reach, false
	return e
}

func (e *Env) asGoal() *Env {
	e.mode, e.pol, e.guard, e.noInst = 2, 1, "true", true
	return e
}

func (e *Env) child() *Env {
	n := *e
	n.vars = make(map[string]*SVal, len(e.vars)+2)
	for k, v := range e.vars {
		n.vars[k] = v
	}
	return &n
}

func (e *Env) fail(format string, a ...any) {
	panic(specErr(fmt.Sprintf(format, a...)))
}

type specErr string

func (s specErr) Error() string { return "contract error: " + string(s) }

func (e *Env) evalBool(x Expr) string {
	v := e.eval(x)
	if v.K != KBool {
		e.fail("expression %s is not boolean", x.exprString())
	}
	return v.Term
}

func (e *Env) resolveType(t *TypeExpr) types.Type {
	switch t.Kind {
	case "ptr":
		return types.NewPointer(e.resolveType(t.Elem))
	case "slice":
		return types.NewSlice(e.resolveType(t.Elem))
	case "array":
		n := new(big.Int)
		n.SetString(t.N, 0)
		return types.NewArray(e.resolveType(t.Elem), n.Int64())
	case "map":
		return types.NewMap(e.resolveType(t.Key), e.resolveType(t.Elem))
	}
	if t.Pkg == "" {
		if t.Name == "byte" {
			return tByte
		}
		if o := types.Universe.Lookup(t.Name); o != nil {
			if tn, ok := o.(*types.TypeName); ok {
				return tn.Type()
			}
		}
		if e.pkg != nil {
			if o := e.pkg.Scope().Lookup(t.Name); o != nil {
				if tn, ok := o.(*types.TypeName); ok {
					return tn.Type()
				}
			}
		}
		e.fail("unknown type %s", t.Name)
	}
	p := e.findPkg(t.Pkg)
	if p == nil {
		e.fail("unknown package %s", t.Pkg)
	}
	if o := p.Scope().Lookup(t.Name); o != nil {
		if tn, ok := o.(*types.TypeName); ok {
			return tn.Type()
		}
	}
	e.fail("unknown type %s.%s", t.Pkg, t.Name)
	return nil
}

func (e *Env) findPkg(name string) *types.Package {
	if e.pkg != nil {
		for _, imp := range e.pkg.Imports() {
			if imp.Name() == name {
				return imp
			}
		}
		if e.pkg.Name() == name {
			return e.pkg
		}
	}
	return e.g.P.pkgByName(name)
}

// untyped constant
func untyped(v *big.Int) *SVal { return &SVal{K: KInt, Const: v, Term: bvLit(v, 64)} }

// unify untyped constants with the other operand's type
func (e *Env) unify(a, b *SVal) (*SVal, *SVal) {
	if a.T == nil && b.T != nil && a.Const != nil && b.K == KInt {
		return e.g.constVal(b.T, a.Const), b
	}
	if b.T == nil && a.T != nil && b.Const != nil && a.K == KInt {
		return a, e.g.constVal(a.T, b.Const)
	}
	if a.T == nil && b.T == nil && a.Const != nil && b.Const != nil {
		return e.g.constVal(tInt, a.Const), e.g.constVal(tInt, b.Const)
	}
	return a, b
}

func (e *Env) eval(x Expr) *SVal {
	g := e.g
	switch x := x.(type) {
	case *ENum:
		n := new(big.Int)
		if _, ok := n.SetString(x.Text, 0); !ok {
			e.fail("bad number %s", x.Text)
		}
		return untyped(n)
	case *EStr:
		return g.strLit(tString, x.Val)
	case *EIdent:
		return e.ident(x.Name)
	case *EUnary:
		if x.Op == "*" {
			p := e.eval(x.X)
			if p.K != KPtr {
				e.fail("dereference of non-pointer %s", x.X.exprString())
			}
			return g.load(e.cur, p, p.T.Underlying().(*types.Pointer).Elem())
		}
		if x.Op == "!" {
			sub := *e
			sub.pol = -e.pol
			sub.noInst = true
			return mkBool(sNot(sub.evalBool(x.X)))
		}
		v := e.eval(x.X)
		switch x.Op {
		case "!":
			return mkBool(sNot(v.Term))
		case "-":
			if v.T == nil {
				return untyped(new(big.Int).Neg(v.Const))
			}
			return scalar(v.T, KInt, sApp("bvneg", v.Term))
		case "^":
			if v.T == nil {
				return untyped(new(big.Int).Not(v.Const))
			}
			return scalar(v.T, KInt, sApp("bvnot", v.Term))
		}
	case *EBinary:
		return e.binary(x)
	case *ECond:
		if e.pol != 0 {
			sub := *e
			sub.pol = 0
			e = &sub
		}
		c := e.evalBool(x.C)
		a, b := e.unify(e.eval(x.A), e.eval(x.B))
		return g.iteVal(c, a, b)
	case *ESel:
		return e.sel(x)
	case *EIndex:
		return e.index(x)
	case *ESlice:
		return e.slice(x)
	case *ECall:
		return e.call(x)
	case *EQuant:
		return e.quant(x)
	}
	e.fail("cannot evaluate %s", x.exprString())
	return nil
}

func (e *Env) ident(name string) *SVal {
	if e.curParams && e.f != nil && e.at != nil {
		if _, isVar := e.vars[name]; isVar && e.f.isParamName(name) {
			if v := e.f.resolveLocalOpt(name, e.at, e.atIdx, e.phiSub, true); v != nil {
				return v
			}
		}
	}
	if v, ok := e.vars[name]; ok {
		return v
	}
	if strings.HasPrefix(name, "$") {
		if ty, ok := e.g.P.Specs.Ghosts[name[1:]]; ok {
			if ty == "bool" {
				return mkBool(e.g.heapGet(e.cur, "$ghost."+name[1:], SBool))
			}
			return scalar(tInt, KInt, e.g.heapGet(e.cur, "$ghost."+name[1:], SBV64))
		}
		e.fail("undeclared ghost variable %s", name)
	}
	switch name {
	case "true":
		return mkBool("true")
	case "false":
		return mkBool("false")
	case "nil":
		return &SVal{T: types.Typ[types.UntypedNil], K: KPtr, Term: bv64(0)}
	}
	if e.f != nil && e.f.fn != nil && e.f.fn.Synthetic == "" {
		// a variable of the enclosing function captured by this closure: go/ssa passes its address; the name
		// means the variable's current value
		for _, fv := range e.f.fn.FreeVars {
			if fv.Name() == name {
				if p, ok := e.f.vals[fv]; ok {
					if pt, isPtr := fv.Type().Underlying().(*types.Pointer); isPtr {
						return e.g.load(e.cur, p, pt.Elem())
					}
				}
			}
		}
	}
	if e.f != nil {
		// an address-taken local (captured by a closure, named result with defers, &x, a struct assigned
		// field by field): its current value - SSA debug references to such a variable only name the value it
		// was initialised with
		if p := e.f.resolveAllocLocal(name, e.at); p != nil && !e.f.isParamName(name) {
			return e.g.load(e.cur, p, p.T.Underlying().(*types.Pointer).Elem())
		}
		if v := e.f.resolveLocal(name, e.at, e.atIdx, e.phiSub); v != nil {
			return v
		}
		if p := e.f.resolveAllocLocal(name, e.at); p != nil {
			return e.g.load(e.cur, p, p.T.Underlying().(*types.Pointer).Elem())
		}
	}
	if e.pkg != nil {
		if o := e.pkg.Scope().Lookup(name); o != nil {
			return e.object(o)
		}
	}
	e.fail("unknown identifier %s", name)
	return nil
}

func (e *Env) object(o types.Object) *SVal {
	g := e.g
	switch o := o.(type) {
	case *types.Const:
		return g.constFromValue(o.Type(), o.Val())
	case *types.Var:
		gv := g.P.globalVar(o)
		if gv == nil {
			e.fail("no ssa global for %s", o.Name())
		}
		p := g.globalAddr(gv)
		st := e.cur
		if p.Imm {
			st = g.immState()
		}
		r := g.load(st, p, o.Type())
		if id := g.P.errGlobals[gv.String()]; id > 0 && p.Imm && r.K == KIface {
			tag := bvLit(big.NewInt(int64(g.W.typeTag(types.NewPointer(types.NewNamed(types.NewTypeName(0, nil, "errors.errorString", nil), types.NewStruct(nil, nil), nil))))), 32)
			if g.inQuant == 0 {
				g.addAxiom(sAnd(sEq(r.Sub[0].Term, tag), sEq(r.Sub[1].Term, bv64(int64(1<<39)+int64(id)<<4))))
			}
		}
		return r
	case *types.Func:
		fn := g.P.prog.FuncValue(o)
		if fn == nil {
			e.fail("no ssa function for %s", o.Name())
		}
		return &SVal{T: o.Type(), K: KFunc, Term: bv64(int64(g.W.funcID(fn.String()))), Clo: &Closure{Fn: fn}}
	}
	e.fail("cannot use %s in a contract", o.Name())
	return nil
}

func (g *Gen) constFromValue(t types.Type, v constant.Value) *SVal {
	switch v.Kind() {
	case constant.Bool:
		if constant.BoolVal(v) {
			return mkBool("true")
		}
		return mkBool("false")
	case constant.Int:
		bi, ok := constant.Val(v).(*big.Int)
		if !ok {
			i64, _ := constant.Int64Val(v)
			bi = big.NewInt(i64)
		}
		if b, ok := t.Underlying().(*types.Basic); ok && b.Info()&types.IsUntyped != 0 {
			return untyped(bi)
		}
		return g.constVal(t, bi)
	case constant.String:
		return g.strLit(tString, constant.StringVal(v))
	}
	panic(specErr("unsupported constant kind"))
}

func (e *Env) binary(x *EBinary) *SVal {
	g := e.g
	switch x.Op {
	case "&&":
		return mkBool(sAnd(e.evalBool(x.L), e.evalBool(x.R)))
	case "||":
		sub := *e
		sub.noInst = true
		return mkBool(sOr(sub.evalBool(x.L), sub.evalBool(x.R)))
	case "==>":
		l := *e
		l.pol = -e.pol
		l.noInst = true
		lt := l.evalBool(x.L)
		r := *e
		if e.mode == 1 && !e.noInst {
			lt = e.g.define("ante", SBool, lt)
			r.guard = sAnd(e.guard, lt)
		}
		return mkBool(sImp(lt, r.evalBool(x.R)))
	case "<==>":
		if e.mode != 0 && e.pol != 0 && e.g.inQuant == 0 && (e.hasQuant(x.L, 0) || e.hasQuant(x.R, 0)) {
			return e.iffSplit(x.L, x.R)
		}
		sub := *e
		sub.pol = 0
		return mkBool(sEq(sub.evalBool(x.L), sub.evalBool(x.R)))
	case "==":
		if e.mode != 0 && e.pol != 0 && e.g.inQuant == 0 && (e.hasQuant(x.L, 0) || e.hasQuant(x.R, 0)) {
			return e.iffSplit(x.L, x.R)
		}
	}
	outer := e
	if e.pol != 0 {
		sub := *e
		sub.pol = 0
		e = &sub
	}
	a, b := e.eval(x.L), e.eval(x.R)
	a, b = e.unify(a, b)
	// constant folding of untyped operands is handled by unify -> int
	if a.K == KSlice && b.K == KSlice && (x.Op == "==" || x.Op == "!=") {
		pe := *outer
		if x.Op == "!=" {
			pe.pol = -outer.pol
			pe.noInst = true
		}
		t := pe.sliceEq(a, b)
		if x.Op == "!=" {
			t = sNot(t)
		}
		return mkBool(t)
	}
	if a.K == KInt && b.K == KInt {
		ab, _ := intInfo(a.T)
		bb, _ := intInfo(b.T)
		if ab != bb && x.Op != "<<" && x.Op != ">>" {
			e.fail("operands of %s have different widths in %s (%s vs %s)", x.Op, x.exprString(), a.T, b.T)
		}
	}
	var op token.Token
	switch x.Op {
	case "+":
		op = token.ADD
	case "-":
		op = token.SUB
	case "*":
		op = token.MUL
	case "/":
		op = token.QUO
	case "%":
		op = token.REM
	case "&":
		op = token.AND
	case "|":
		op = token.OR
	case "^":
		op = token.XOR
	case "&^":
		op = token.AND_NOT
	case "<<":
		op = token.SHL
	case ">>":
		op = token.SHR
	case "==":
		op = token.EQL
	case "!=":
		op = token.NEQ
	case "<":
		op = token.LSS
	case "<=":
		op = token.LEQ
	case ">":
		op = token.GTR
	case ">=":
		op = token.GEQ
	default:
		e.fail("unknown operator %s", x.Op)
	}
	rt := a.T
	switch op {
	case token.EQL, token.NEQ, token.LSS, token.LEQ, token.GTR, token.GEQ:
		rt = tBool
	}
	if rt == nil {
		rt = tInt
	}
	// spec-level arithmetic: no side obligations (division by zero is unspecified)
	fr := &Frame{g: g, fn: nil, curReach: "false", curState: e.cur}
	if e.f != nil {
		fr.fn = e.f.fn
	}
	save := len(g.Obls)
	saveCtr := map[string]int{}
	for k, v := range g.kindCtr {
		saveCtr[k] = v
	}
	r := fr.binop(op, a, b, rt, token.NoPos)
	g.Obls = g.Obls[:save]
	g.kindCtr = saveCtr
	return r
}

// hasQuant: does the (boolean) expression contain a quantifier, directly or through pure functions?
func (e *Env) hasQuant(x Expr, depth int) bool {
	if depth > 6 {
		return false
	}
	switch x := x.(type) {
	case *EQuant:
		return true
	case *EUnary:
		return x.Op == "!" && e.hasQuant(x.X, depth)
	case *EBinary:
		switch x.Op {
		case "&&", "||", "==>", "<==>":
			return e.hasQuant(x.L, depth) || e.hasQuant(x.R, depth)
		}
		return false
	case *ECall:
		if id, ok := x.Fun.(*EIdent); ok {
			switch id.Name {
			case "old", "pre":
				return e.hasQuant(x.Args[0], depth)
			}
			if pf := e.g.P.pureFn(e.pkg, id.Name); pf != nil && !pf.Uninterp && pf.Result != nil && pf.Result.Name == "bool" {
				if pf.Opaque {
					return true
				}
				return e.hasQuant(pf.Body, depth+1)
			}
		}
	}
	return false
}

func isBasicTypeName(n string) bool {
	switch n {
	case "int", "int8", "int16", "int32", "int64", "uint", "uint8", "uint16", "uint32", "uint64", "uintptr", "byte", "bool", "string":
		return true
	}
	return false
}

// iffSplit evaluates A <==> B as (A ==> B) && (B ==> A) so that quantifiers on either side get a polarity.
func (e *Env) iffSplit(l, r Expr) *SVal {
	a := &EBinary{"==>", l, r}
	b := &EBinary{"==>", r, l}
	lt := e.evalBool(a)
	rt := e.evalBool(b)
	return mkBool(sAnd(lt, rt))
}

var sliceEqExpr Expr

// sliceEq: element-wise equality of two slices, expressed in the contract language so that its
// quantifier takes part in skolemisation / instantiation like any other.
func (e *Env) sliceEq(a, b *SVal) string {
	ea := a.T.Underlying().(*types.Slice).Elem()
	if !elemTwoLevel(ea) {
		e.fail("range equality needs scalar elements")
	}
	if sliceEqExpr == nil {
		x, err := parseExpr("len($x) == len($y) && (forall k int :: 0 <= k && k < len($x) ==> $x[k] == $y[k])")
		if err != nil {
			panic(err)
		}
		sliceEqExpr = x
	}
	sub := e.child()
	sub.vars["$x"], sub.vars["$y"] = a, b
	return sub.evalBool(sliceEqExpr)
}

// specAssume: assume a contract-language fact written over placeholder variables ($name).
func (g *Gen) specAssume(reach string, st *State, vars map[string]*SVal, text string) {
	x, err := parseExpr(text)
	if err != nil {
		panic(err)
	}
	env := &Env{g: g, vars: vars, cur: st, old: st, reach: reach}
	env.asAssume(reach)
	g.assume(reach, env.evalBool(x))
}

// promote rewrites a selection of a promoted field (x.F where F lives in an embedded struct) into the
// explicit path x.Emb.F; nil when name is not a promoted field of t.
func (e *Env) promote(x *ESel, t types.Type) *ESel {
	obj, path, _ := types.LookupFieldOrMethod(t, true, e.pkgOf(t), x.Name)
	if _, ok := obj.(*types.Var); !ok || len(path) < 2 {
		return nil
	}
	cur := x.X
	tt := t
	for _, i := range path[:len(path)-1] {
		st := structOf(derefType(tt))
		if st == nil {
			return nil
		}
		f := st.Field(i)
		cur = &ESel{X: cur, Name: f.Name()}
		tt = f.Type()
	}
	return &ESel{X: cur, Name: x.Name}
}

func derefType(t types.Type) types.Type {
	if p, ok := t.Underlying().(*types.Pointer); ok {
		return p.Elem()
	}
	return t
}

func (e *Env) pkgOf(t types.Type) *types.Package {
	if n, ok := derefType(t).(*types.Named); ok && n.Obj() != nil && n.Obj().Pkg() != nil {
		return n.Obj().Pkg()
	}
	return e.pkg
}

func (e *Env) sel(x *ESel) *SVal {
	g := e.g
	// package-qualified name?
	if id, ok := x.X.(*EIdent); ok {
		if _, isVar := e.vars[id.Name]; !isVar {
			isLocal := e.f != nil && e.f.resolveLocal(id.Name, e.at, e.atIdx, e.phiSub) != nil
			if !isLocal && (e.pkg == nil || e.pkg.Scope().Lookup(id.Name) == nil) {
				if p := e.findPkg(id.Name); p != nil {
					o := p.Scope().Lookup(x.Name)
					if o == nil {
						e.fail("package %s has no member %s", id.Name, x.Name)
					}
					sub := *e
					sub.pkg = p
					v := sub.object(o)
					return v
				}
			}
		}
	}
	v := e.eval(x.X)
	switch v.K {
	case KPtr:
		pt, ok := v.T.Underlying().(*types.Pointer)
		if !ok {
			e.fail("selector on nil")
		}
		st := structOf(pt.Elem())
		if st == nil {
			e.fail("selector %s on pointer to non-struct", x.Name)
		}
		idx, emb := fieldIndex(st, x.Name)
		if idx < 0 {
			if px := e.promote(x, v.T); px != nil {
				return e.sel(px)
			}
			if m := e.methodOf(v.T, x.Name); m != nil {
				return &SVal{T: m.Type(), K: KFunc, Clo: &Closure{Fn: m, Bindings: []*SVal{v}}, Term: "method"}
			}
			e.fail("no field %s in %s", x.Name, pt.Elem())
		}
		_ = emb
		fa := g.fieldAddr(v, pt.Elem(), idx)
		fa.Imm = v.Imm
		ft := st.Field(idx).Type()
		r := g.load(e.stateFor(fa), fa, ft)
		// heap invariants: every reference stored in the heap existed when it was stored, and
		// stored slices/strings/times satisfy their runtime invariants
		if g.inQuant == 0 && !isAggregate(ft) {
			if hasRefs(ft) {
				if ver := g.versionOf(e.stateFor(fa), fa, ft); ver != "" {
					g.addAxiom(g.refFactsAt(e.cur, ver, fa, r))
				}
			}
			if ti := g.typeInv(r); ti != "true" {
				g.addAxiom(ti)
			}
		}
		return r
	case KStruct:
		st := structOf(v.T)
		idx, _ := fieldIndex(st, x.Name)
		if idx < 0 {
			if px := e.promote(x, v.T); px != nil {
				return e.sel(px)
			}
			if m := e.methodOf(v.T, x.Name); m != nil {
				return &SVal{T: m.Type(), K: KFunc, Clo: &Closure{Fn: m, Bindings: []*SVal{v}}, Term: "method"}
			}
			e.fail("no field %s in %s", x.Name, v.T)
		}
		return v.Sub[idx]
	case KTime:
		switch x.Name {
		case "sec":
			return v.Sub[0]
		case "nsec":
			return v.Sub[1]
		}
	case KSlice:
		switch x.Name {
		case "base":
			return v.Sub[0]
		case "off":
			return v.Sub[1]
		}
	case KIface:
		switch x.Name {
		case "tag":
			return v.Sub[0]
		case "payload":
			return v.Sub[1]
		}
	}
	if v.T != nil {
		if m := e.methodOf(v.T, x.Name); m != nil {
			return &SVal{T: m.Type(), K: KFunc, Clo: &Closure{Fn: m, Bindings: []*SVal{v}}, Term: "method"}
		}
	}
	e.fail("cannot select %s from %s", x.Name, x.X.exprString())
	return nil
}

func (e *Env) stateFor(p *SVal) *State {
	if p.Imm {
		return e.g.immState()
	}
	return e.cur
}

func fieldIndex(st *types.Struct, name string) (int, bool) {
	for i := 0; i < st.NumFields(); i++ {
		if st.Field(i).Name() == name {
			return i, st.Field(i).Embedded()
		}
	}
	return -1, false
}

func (e *Env) methodOf(t types.Type, name string) *ssa.Function {
	ms := e.g.P.prog.MethodSets.MethodSet(t)
	for i := 0; i < ms.Len(); i++ {
		if ms.At(i).Obj().Name() == name {
			return e.g.P.prog.MethodValue(ms.At(i))
		}
	}
	if _, isPtr := t.Underlying().(*types.Pointer); !isPtr {
		ms = e.g.P.prog.MethodSets.MethodSet(types.NewPointer(t))
		for i := 0; i < ms.Len(); i++ {
			if ms.At(i).Obj().Name() == name {
				return e.g.P.prog.MethodValue(ms.At(i))
			}
		}
	}
	return nil
}

func (e *Env) index(x *EIndex) *SVal {
	g := e.g
	v := e.eval(x.X)
	i := e.eval(x.I)
	switch v.K {
	case KSlice:
		if i.T == nil {
			i = g.constVal(tInt, i.Const)
		}
		et := v.T.Underlying().(*types.Slice).Elem()
		if g.inQuant == 0 && i.Const == nil && !elemTwoLevel(et) {
			// index terms into slices of composite elements are instantiation candidates
			// (scalar-element reads are tracked precisely by the read log instead)
			g.addNamed(i)
		}
		p := g.sliceElemAddr(v, idx64(i))
		return g.load(e.cur, p, et)
	case KArray:
		if i.T == nil {
			i = g.constVal(tInt, i.Const)
		}
		et := v.T.Underlying().(*types.Array).Elem()
		return scalar(et, kindOf(et), sSel(v.Term, idx64(i)))
	case KPtr:
		if pt, ok := v.T.Underlying().(*types.Pointer); ok {
			if at, ok := pt.Elem().Underlying().(*types.Array); ok {
				if i.T == nil {
					i = g.constVal(tInt, i.Const)
				}
				idx := idx64(i)
				if v.Off != "" {
					idx = sApp("bvadd", v.Off, idx)
				}
				p := g.elemAddr(v.Term, idx, at.Elem())
				return g.load(e.stateFor(v), p, at.Elem())
			}
		}
	case KTuple:
		if i.Const != nil && i.Const.IsInt64() && int(i.Const.Int64()) < len(v.Sub) {
			return v.Sub[i.Const.Int64()]
		}
	case KMap:
		mt := v.T.Underlying().(*types.Map)
		if i.T == nil {
			i = g.constVal(mt.Key(), i.Const)
		}
		fr := &Frame{g: g, curState: e.cur}
		dom, val := fr.mapRead(e.cur, v, mt, i)
		r := g.iteVal(dom, val, g.zero(mt.Elem()))
		r = g.shared(r)
		// heap invariant: references stored in a map existed when they were stored
		if g.inQuant == 0 && hasRefs(mt.Elem()) {
			g.addAxiom(g.refFacts(e.cur, r))
		}
		return r
	case KString:
		if i.T == nil {
			i = g.constVal(tInt, i.Const)
		}
		g.usedStr = true
		return scalar(tByte, KInt, sApp("strat", v.Term, idx64(i)))
	}
	e.fail("cannot index %s", x.X.exprString())
	return nil
}

func (e *Env) slice(x *ESlice) *SVal {
	g := e.g
	v := e.eval(x.X)
	if v.K == KArray {
		// slicing an addressable array (a field, an element): slice the location, as Go does
		func() {
			defer func() {
				if r := recover(); r != nil {
					if _, ok := r.(specErr); !ok {
						panic(r)
					}
				}
			}()
			if p := e.evalLoc(x.X); p != nil && p.K == KPtr {
				v = p
			}
		}()
	}
	if v.K == KPtr {
		if pt, ok := v.T.Underlying().(*types.Pointer); ok {
			if at, ok := pt.Elem().Underlying().(*types.Array); ok {
				off := bv64(0)
				if v.Off != "" {
					off = v.Off
				}
				v = &SVal{T: types.NewSlice(at.Elem()), K: KSlice, Sub: []*SVal{mkInt(v.Term), mkInt(off), mkInt(bv64(at.Len())), mkInt(bv64(at.Len()))}}
			}
		}
	}
	if v.K != KSlice {
		e.fail("cannot slice %s", x.X.exprString())
	}
	lo, hi := bv64(0), v.Sub[2].Term
	if x.Lo != nil {
		l := e.eval(x.Lo)
		if l.T == nil {
			l = g.constVal(tInt, l.Const)
		}
		lo = idx64(l)
	}
	if x.Hi != nil {
		h := e.eval(x.Hi)
		if h.T == nil {
			h = g.constVal(tInt, h.Const)
		}
		hi = idx64(h)
	}
	return &SVal{T: v.T, K: KSlice, Sub: []*SVal{v.Sub[0], mkInt(sApp("bvadd", v.Sub[1].Term, lo)), mkInt(sApp("bvsub", hi, lo)), mkInt(sApp("bvsub", v.Sub[3].Term, lo))}}
}

func (e *Env) quant(x *EQuant) *SVal {
	g := e.g
	tp := 0
	switch e.mode {
	case 1:
		tp = -e.pol
	case 2:
		tp = e.pol
	}
	if g.inQuant > 0 {
		tp = 0
	}
	var ts []types.Type
	for _, qv := range x.Vars {
		t := e.resolveType(qv.Type)
		if !isScalarType(t) {
			e.fail("quantified variable %s must have a scalar type", qv.Name)
		}
		ts = append(ts, t)
	}
	// skolemise: forall to be proved / exists that is assumed
	if (x.Forall && tp > 0) || (!x.Forall && tp < 0) {
		sub := e.child()
		for i, qv := range x.Vars {
			var v *SVal
			if pn := packedKeyLen(ts[i]); pn > 0 {
				// small byte arrays are quantified in packed form (one bit-vector)
				v = g.packedVal(ts[i], g.fresh("sk."+qv.Name, Sort(fmt.Sprintf("(_ BitVec %d)", 8*pn))))
				v.Term = g.define("sk."+qv.Name+".arr", g.W.scalarSort(ts[i]), v.Term)
			} else {
				n := g.fresh("sk."+qv.Name, g.W.scalarSort(ts[i]))
				v = scalar(ts[i], kindOf(ts[i]), n)
			}
			sub.vars[qv.Name] = v
			g.addNamed(v)
		}
		// {hint L(args)}: instances of proved lemmas at the skolem constants, available to this goal only
		for _, tr := range x.Trig {
			if c, ok := tr.(*ECall); ok {
				if id, ok := c.Fun.(*EIdent); ok && id.Name == "hint" {
					for _, a := range c.Args {
						h := *sub
						h.mode, h.pol, h.noInst = 0, 0, true
						t := h.evalBool(a)
						if g.curOrigin != "" {
							if g.privAsms == nil {
								g.privAsms = map[string][]asmRec{}
							}
							g.privAsms[g.curOrigin] = append(g.privAsms[g.curOrigin], asmRec{0, t, g.curRound})
						}
					}
				}
			}
		}
		return mkBool(sub.evalBool(x.Body))
	}
	// exists to be proved (or forall that is assumed false): offer ground witnesses
	if ((!x.Forall && tp > 0) || (x.Forall && tp < 0 && e.mode == 2)) && len(x.Vars) == 1 && !x.Forall {
		srt := g.W.scalarSort(ts[0])
		var alts []string
		n := 0
		_, wantSigned := intInfo(ts[0])
		wantSigned = wantSigned && kindOf(ts[0]) == KInt
		for _, cand := range g.named[srt] {
			if cand.origin != "" && cand.origin != g.curOrigin {
				continue
			}
			if cand.ptr != (kindOf(ts[0]) == KPtr) || cand.signed != wantSigned {
				continue
			}
			if n >= 12 {
				break
			}
			n++
			w := e.child()
			w.vars[x.Vars[0].Name] = scalar(ts[0], kindOf(ts[0]), cand.term)
			func() {
				defer func() {
					if r := recover(); r != nil {
						if _, ok := r.(specErr); !ok {
							panic(r)
						}
					}
				}()
				alts = append(alts, w.evalBool(x.Body))
			}()
		}
		if len(alts) > 0 {
			plain := *e
			plain.mode = 0
			rest := plain.quant(x)
			return mkBool(sOr(append(alts, rest.Term)...))
		}
	}
	sub := e.child()
	var binders []string
	var qh *QHyp
	negHyp := !x.Forall && tp > 0 && e.mode == 1 && !e.noInst
	// a quantifier with explicit triggers is left to the back ends' e-matching (full stage): no ground
	// instances are generated for it here
	userTrig := false
	for _, tr := range x.Trig {
		if c, ok := tr.(*ECall); ok {
			if id, ok := c.Fun.(*EIdent); ok && id.Name == "hint" {
				continue
			}
		}
		if id, ok := tr.(*EIdent); ok && id.Name == "solver" {
			userTrig = true // {solver}: leave this quantifier to the back ends' e-matching only
		}
	}
	if ((x.Forall && tp < 0 && e.mode == 1 && !e.noInst) || negHyp) && !userTrig {
		capt := e.child()
		capt.cur = g.clone(e.cur)
		if e.old != nil {
			capt.old = g.clone(e.old)
		}
		if e.loopPre != nil {
			capt.loopPre = g.clone(e.loopPre)
		}
		sq := g.seq + 1
		if g.asmSeqOverride > 0 {
			sq = g.asmSeqOverride
		}
		qh = &QHyp{vars: x.Vars, types: ts, body: x.Body, env: capt, guard: e.guard, reads: map[int][]readRec{}, done: map[string]bool{}, text: x.exprString(), seq: sq, negate: negHyp}
	}
	for i, qv := range x.Vars {
		n := g.nm("q." + qv.Name)
		if pn := packedKeyLen(ts[i]); pn > 0 {
			binders = append(binders, fmt.Sprintf("(%s (_ BitVec %d))", n, 8*pn))
			sub.vars[qv.Name] = g.packedVal(ts[i], n)
		} else {
			binders = append(binders, fmt.Sprintf("(%s %s)", n, g.W.scalarSort(ts[i])))
			sub.vars[qv.Name] = scalar(ts[i], kindOf(ts[i]), n)
		}
		if qh != nil {
			qh.syms = append(qh.syms, n)
		}
	}
	sub.qbuild = qh
	sub.pol = 0
	g.inQuant++
	if qh != nil {
		g.qbuilding = append(g.qbuilding, qh)
	}
	body := sub.evalBool(x.Body)
	var pats []string
	for _, tr := range x.Trig {
		if c, ok := tr.(*ECall); ok {
			if id, ok := c.Fun.(*EIdent); ok && id.Name == "hint" {
				continue
			}
		}
		// has(m, k) as a trigger stands for the domain lookup term itself (a pattern cannot contain
		// connectives)
		if c, ok := tr.(*ECall); ok {
			if id, ok := c.Fun.(*EIdent); ok && id.Name == "has" && len(c.Args) == 2 {
				m := sub.eval(c.Args[0])
				if mt, ok := m.T.Underlying().(*types.Map); ok {
					k := sub.eval(c.Args[1])
					fd, _, _ := mapFams(mt)
					ks := g.mapKeySort(mt)
					hd := g.heapGet(sub.cur, fd, arrSort(SBV64, arrSort(ks, SBool)))
					pats = append(pats, sSel(sSel(hd, m.Term), g.mapKey(mt, k)))
					continue
				}
			}
		}
		if id, ok := tr.(*EIdent); ok && id.Name == "solver" {
			continue
		}
		v := sub.eval(tr)
		pats = append(pats, v.Term)
	}
	if qh != nil {
		g.qbuilding = g.qbuilding[:len(g.qbuilding)-1]
		g.qhyps = append(g.qhyps, qh)
	}
	g.inQuant--
	q := "exists"
	if x.Forall {
		q = "forall"
	}
	if len(pats) > 0 {
		body = fmt.Sprintf("(! %s :pattern (%s))", body, strings.Join(pats, " "))
	}
	return mkBool(fmt.Sprintf("(%s (%s) %s)", q, strings.Join(binders, " "), body))
}

func (e *Env) call(x *ECall) *SVal {
	g := e.g
	if id, ok := x.Fun.(*EIdent); ok {
		switch id.Name {
		case "old":
			if e.old == nil {
				e.fail("old() has no meaning here")
			}
			sub := *e
			sub.cur = e.old
			sub.curParams = false
			return sub.eval(x.Args[0])
		case "iter": // iter(x): x as it was at the start of the current loop iteration
			if e.loopHead == nil {
				e.fail("iter() outside a loop")
			}
			sub := *e
			sub.cur = e.loopHead
			return sub.eval(x.Args[0])
		case "pre":
			if e.loopPre == nil {
				e.fail("pre() outside a loop invariant")
			}
			sub := *e
			sub.cur = e.loopPre
			sub.curParams = false
			return sub.eval(x.Args[0])
		case "len", "cap":
			v := e.eval(x.Args[0])
			switch v.K {
			case KSlice:
				if id.Name == "len" {
					return mkInt(v.Sub[2].Term)
				}
				return mkInt(v.Sub[3].Term)
			case KString:
				g.usedStr = true
				return mkInt(sApp("strlen", v.Term))
			case KArray:
				return mkInt(bv64(v.T.Underlying().(*types.Array).Len()))
			case KMap:
				fr := &Frame{g: g}
				return mkInt(fr.mapLen(e.cur, v, v.T.Underlying().(*types.Map)))
			case KPtr:
				if pt, ok := v.T.Underlying().(*types.Pointer); ok {
					if at, ok := pt.Elem().Underlying().(*types.Array); ok {
						return mkInt(bv64(at.Len()))
					}
				}
			}
			e.fail("len of %s", x.Args[0].exprString())
		case "min", "max":
			a, b := e.unify(e.eval(x.Args[0]), e.eval(x.Args[1]))
			_, signed := intInfo(a.T)
			op := "bvule"
			if signed {
				op = "bvsle"
			}
			c := sApp(op, a.Term, b.Term)
			if id.Name == "max" {
				c = sNot(c)
			}
			r := scalar(a.T, KInt, sIte(c, a.Term, b.Term))
			for _, extra := range x.Args[2:] {
				ev, _ := e.unify(e.eval(extra), r)
				c := sApp(op, r.Term, ev.Term)
				if id.Name == "max" {
					c = sNot(c)
				}
				r = scalar(a.T, KInt, sIte(c, r.Term, ev.Term))
			}
			return r
		case "has": // has(m, k): key present
			m := e.eval(x.Args[0])
			mt := m.T.Underlying().(*types.Map)
			k := e.eval(x.Args[1])
			if k.T == nil {
				k = g.constVal(mt.Key(), k.Const)
			}
			fr := &Frame{g: g}
			dom, _ := fr.mapRead(e.cur, m, mt, k)
			return mkBool(dom)
		case "unchanged":
			var xs []string
			for _, a := range x.Args {
				if st, ok := a.(*EStar); ok {
					sub := *e
					sub.cur = e.old
					o := sub.eval(st.X)
					n := e.eval(st.X)
					et := n.T.Underlying().(*types.Slice).Elem()
					ho := g.heapGet(e.old, elemFam(et), g.elemHeapSort(et))
					hn := g.heapGet(e.cur, elemFam(et), g.elemHeapSort(et))
					xs = append(xs, eqVal(o, n), sEq(sSel(ho, o.Sub[0].Term), sSel(hn, n.Sub[0].Term)))
					continue
				}
				sub := *e
				sub.cur = e.old
				xs = append(xs, eqVal(sub.eval(a), e.eval(a)))
			}
			return mkBool(sAnd(xs...))
		case "fresh": // allocated during this call
			v := e.eval(x.Args[0])
			ref := v.Term
			if v.K == KSlice {
				ref = v.Sub[0].Term
			}
			return mkBool(sAnd(sNot(sEq(ref, bv64(0))), sNot(g.allocated(e.old, ref))))
		case "allocated": // allocated(p): p is nil or an object that exists in the current state
			v := e.eval(x.Args[0])
			ref := v.Term
			if v.K == KSlice {
				ref = v.Sub[0].Term
			}
			return mkBool(g.allocated(e.cur, ref))
		case "isnil":
			v := e.eval(x.Args[0])
			if v.K == KIface {
				return mkBool(sEq(v.Sub[0].Term, bvLit(big.NewInt(0), 32)))
			}
			if v.K == KSlice {
				return mkBool(sEq(v.Sub[0].Term, bv64(0)))
			}
			if v.Term == "" {
				e.fail("isnil: operand %s has no scalar value here", x.Args[0].exprString())
			}
			return mkBool(sEq(v.Term, bv64(0)))
		case "dyntype": // dyntype(x, T): dynamic type of interface x is T
			v := e.eval(x.Args[0])
			t := e.typeArg(x.Args[1])
			return mkBool(sEq(v.Sub[0].Term, bvLit(big.NewInt(int64(g.W.typeTag(t))), 32)))
		case "atomicval": // atomicval(x): current value of a sync/atomic typed variable x (its field v)
			p := e.evalLoc(x.Args[0])
			pt := p.T.Underlying().(*types.Pointer).Elem()
			st := structOf(pt)
			if st == nil {
				e.fail("atomicval: %s is not a sync/atomic type", pt)
			}
			for i := 0; i < st.NumFields(); i++ {
				if st.Field(i).Name() == "v" {
					fa := g.fieldAddr(p, pt, i)
					r := g.load(e.cur, fa, st.Field(i).Type())
					if n, ok := types.Unalias(pt).(*types.Named); ok && n.Obj().Name() == "Bool" {
						return mkBool(sNot(sEq(r.Term, bvLit(big.NewInt(0), 32))))
					}
					return r
				}
			}
			e.fail("atomicval: %s has no field v", pt)
		case "addr": // addr(x): the address of location x
			return e.evalLoc(x.Args[0])
		case "ptrint": // ptrint(p): the address held by pointer p as an integer (for comparison with ifaceptr)
			v := e.eval(x.Args[0])
			if v.K == KChan || v.K == KMap {
				// the identity of a channel or map
				return scalar(tUPtr, KInt, v.Term)
			}
			if v.K != KPtr {
				v = e.evalLoc(x.Args[0])
			}
			return scalar(tUPtr, KInt, v.Term)
		case "chanevents": // ghost: the number of channel operations the executing goroutine has performed
			return scalar(tInt, KInt, g.heapGet(e.cur, evHeap, SBV64))
		case "firstrecv", "lastpoll": // ghost: event numbers of channel operations (see exec.go); the channel may be given by its identity (uintptr)
			v := e.eval(x.Args[0])
			if v.K != KChan && v.K != KInt {
				e.fail("%s: not a channel or a channel identity", id.Name)
			}
			hn := firstRecvHeap
			if id.Name == "lastpoll" {
				hn = lastPollHeap
			}
			return scalar(tInt, KInt, sSel(g.heapGet(e.cur, hn, recvSort), v.Term))
		case "recvcount": // recvcount(ch): ghost, how many values the executing goroutine has taken from channel ch
			v := e.eval(x.Args[0])
			if v.K != KChan {
				e.fail("recvcount: not a channel")
			}
			return scalar(tInt, KInt, sSel(g.heapGet(e.cur, recvHeap, recvSort), v.Term))
		case "ifaceptr": // ifaceptr(x): the pointer an interface value carries (its payload), as an untyped address
			v := e.eval(x.Args[0])
			if v.K != KIface {
				e.fail("ifaceptr: not an interface value")
			}
			return scalar(tUPtr, KInt, v.Sub[1].Term)
		case "unbox": // unbox(x): the value held by interface x when its dynamic type is statically known
			v := e.eval(x.Args[0])
			if v.K != KIface {
				e.fail("unbox: not an interface value")
			}
			if len(x.Args) == 2 {
				// unbox(x, T): the value read as a T (meaningful where dyntype(x, T) holds)
				fr := &Frame{g: g, curState: e.cur, curReach: "false"}
				return fr.unbox(v, e.typeArg(x.Args[1]))
			}
			tagLit := v.Sub[0].Term
			var tag int64 = -1
			if strings.HasPrefix(tagLit, "#x") {
				n := new(big.Int)
				n.SetString(tagLit[2:], 16)
				tag = n.Int64()
			}
			if tag <= 0 || int(tag) > len(g.W.tagTypes) {
				e.fail("unbox: the dynamic type of %s is not statically known here", x.Args[0].exprString())
			}
			t := g.W.tagTypes[tag-1]
			fr := &Frame{g: g, curState: e.cur, curReach: "false"}
			return fr.unbox(v, t)
		case "sameobj": // sameobj(p, q): p and q point into the same allocated object
			a, b := e.eval(x.Args[0]), e.eval(x.Args[1])
			return mkBool(sEq(objOf(a.Term), objOf(b.Term)))
		case "samearray":
			a, b := e.eval(x.Args[0]), e.eval(x.Args[1])
			return mkBool(sEq(a.Sub[0].Term, b.Sub[0].Term))
		case "sliceoff":
			a := e.eval(x.Args[0])
			return mkInt(a.Sub[1].Term)
		case "clocknow": // the ghost wall clock of the current state
			cs, cn := g.clockOf(e.cur)
			tt := g.P.timeType()
			if tt == nil {
				e.fail("clocknow: package time is not loaded")
			}
			return &SVal{T: tt, K: KTime, Sub: []*SVal{scalar(tInt64, KInt, cs), scalar(tInt64, KInt, cn)}}
		case "bytesof": // bytesof(s): the (array, offset) view of slice contents as an SMT array value
			a := e.eval(x.Args[0])
			et := a.T.Underlying().(*types.Slice).Elem()
			h := g.heapGet(e.cur, elemFam(et), g.elemHeapSort(et))
			return &SVal{T: types.NewArray(et, 0), K: KArray, Term: sSel(h, a.Sub[0].Term)}
		}
		// pure spec function?
		if pf := g.P.pureFn(e.pkg, id.Name); pf != nil {
			return e.callPure(pf, x.Args)
		}
		// a proved lemma used as a formula: (requires ==> ensures) at these arguments
		if lm := g.P.Specs.Lemmas[id.Name]; lm != nil {
			return e.lemmaFormula(lm, x.Args)
		}
		// type conversion?
		if t := e.tryType(id.Name); t != nil {
			return e.convert(e.eval(x.Args[0]), t)
		}
	}
	if tx, ok := x.Fun.(*ETypeX); ok {
		return e.convert(e.eval(x.Args[0]), e.resolveType(tx.T))
	}
	if sel, ok := x.Fun.(*ESel); ok {
		if id, ok := sel.X.(*EIdent); ok {
			if _, isVar := e.vars[id.Name]; !isVar {
				if p := e.findPkg(id.Name); p != nil && (e.pkg == nil || e.pkg.Scope().Lookup(id.Name) == nil) {
					if pf := g.P.pureFnIn(p.Path(), sel.Name); pf != nil {
						return e.callPure(pf, x.Args)
					}
					if o := p.Scope().Lookup(sel.Name); o != nil {
						if tn, ok := o.(*types.TypeName); ok {
							return e.convert(e.eval(x.Args[0]), tn.Type())
						}
					}
				}
			}
		}
	}
	// Go function or method, executed symbolically (must be side-effect free)
	fv := e.eval(x.Fun)
	if fv.K == KFunc && fv.Clo != nil {
		var args []*SVal
		args = append(args, fv.Clo.Bindings...)
		sig := fv.Clo.Fn.Signature
		for i, a := range x.Args {
			av := e.eval(a)
			pi := i + len(fv.Clo.Bindings)
			if pi < len(fv.Clo.Fn.Params) {
				pt := fv.Clo.Fn.Params[pi].Type()
				if av.T == nil && av.Const != nil {
					av = g.constVal(pt, av.Const)
				}
			}
			args = append(args, av)
		}
		_ = sig
		return e.callGo(fv.Clo.Fn, args)
	}
	e.fail("cannot call %s", x.Fun.exprString())
	return nil
}

// lemmaFormula: the statement of a lemma at given arguments. The lemma itself is a separate
// verification unit; every use is recorded so that the property driver checks it too.
func (e *Env) lemmaFormula(lm *Lemma, args []Expr) *SVal {
	g := e.g
	if len(args) != len(lm.Params) {
		e.fail("lemma %s expects %d arguments", lm.Name, len(lm.Params))
	}
	lenv := &Env{g: g, pkg: g.P.typesPkg(lm.PkgPath), vars: map[string]*SVal{}, cur: e.cur, old: e.old, loopPre: e.loopPre, loopHead: e.loopHead, depth: e.depth + 1}
	for i, a := range args {
		v := e.eval(a)
		pt := lenv.resolveType(lm.Params[i].Type)
		if v.T == nil && v.Const != nil {
			v = g.constVal(pt, v.Const)
		}
		lenv.vars[lm.Params[i].Name] = v
	}
	var req, ens []string
	for _, r := range lm.Requires {
		req = append(req, lenv.evalBool(r.E))
	}
	for _, en := range lm.Ensures {
		ens = append(ens, lenv.evalBool(en.E))
	}
	if g.UsedLemmas == nil {
		g.UsedLemmas = map[string]bool{}
	}
	g.UsedLemmas[lm.Name] = true
	g.note("lemma used as a hint (proved as its own unit): %s", lm.Name)
	return mkBool(sImp(sAnd(req...), sAnd(ens...)))
}

func (e *Env) typeArg(x Expr) types.Type {
	switch x := x.(type) {
	case *EIdent:
		if t := e.tryType(x.Name); t != nil {
			return t
		}
	case *EUnary:
		if x.Op == "*" {
			return types.NewPointer(e.typeArg(x.X))
		}
	case *ESel:
		if id, ok := x.X.(*EIdent); ok {
			if p := e.findPkg(id.Name); p != nil {
				if o := p.Scope().Lookup(x.Name); o != nil {
					if tn, ok := o.(*types.TypeName); ok {
						return tn.Type()
					}
				}
			}
		}
	case *ETypeX:
		return e.resolveType(x.T)
	}
	e.fail("not a type: %s", x.exprString())
	return nil
}

func (e *Env) tryType(name string) types.Type {
	if name == "byte" {
		return tByte
	}
	if o := types.Universe.Lookup(name); o != nil {
		if tn, ok := o.(*types.TypeName); ok {
			return tn.Type()
		}
	}
	if e.pkg != nil {
		if o := e.pkg.Scope().Lookup(name); o != nil {
			if tn, ok := o.(*types.TypeName); ok {
				return tn.Type()
			}
		}
	}
	return nil
}

func (e *Env) convert(v *SVal, t types.Type) *SVal {
	if v.T == nil && v.Const != nil {
		if kindOf(t) == KInt {
			return e.g.constVal(t, v.Const)
		}
	}
	fr := &Frame{g: e.g, curState: e.cur, curReach: "false"}
	if e.f != nil {
		fr.fn = e.f.fn
	}
	return fr.convert(v, t, token.NoPos)
}

func (e *Env) callPure(pf *PureFn, args []Expr) *SVal {
	g := e.g
	if len(args) != len(pf.Params) {
		e.fail("%s expects %d arguments", pf.Name, len(pf.Params))
	}
	if e.depth > 40 {
		e.fail("pure function expansion too deep (recursion?) in %s", pf.Name)
	}
	penv := &Env{g: g, f: nil, pkg: g.P.typesPkg(pf.PkgPath), vars: map[string]*SVal{}, cur: e.cur, old: e.old, loopPre: e.loopPre, loopHead: e.loopHead, depth: e.depth + 1,
		mode: e.mode, pol: e.pol, guard: e.guard, noInst: e.noInst, qbuild: e.qbuild}
	var argVals []*SVal
	argEnv := *e
	argEnv.pol = 0
	for i, a := range args {
		v := argEnv.eval(a)
		pt := penv.resolveType(pf.Params[i].Type)
		if v.T == nil && v.Const != nil {
			v = g.constVal(pt, v.Const)
		}
		if v.T != nil && v.K == KPtr && v.T == types.Typ[types.UntypedNil] {
			v = g.zero(pt)
		}
		v = g.shared(v)
		penv.vars[pf.Params[i].Name] = v
		argVals = append(argVals, v)
	}
	rt := penv.resolveType(pf.Result)
	if pf.Uninterp {
		var fl []string
		var sorts []string
		for i, v := range argVals {
			for _, t := range flatten(v) {
				fl = append(fl, t)
			}
			for _, l := range g.W.leaves(penv.resolveType(pf.Params[i].Type)) {
				sorts = append(sorts, string(l.Sort))
			}
		}
		if len(fl) != len(sorts) {
			e.fail("uninterpreted function %s: argument shapes do not match its parameter types", pf.Name)
		}
		name := sym("uf_" + pf.Name)
		g.declareUF(name, "("+strings.Join(sorts, " ")+") "+string(g.W.scalarSort(rt)))
		if len(fl) == 0 {
			return scalar(rt, kindOf(rt), name)
		}
		return scalar(rt, kindOf(rt), sApp(name, fl...))
	}
	if pf.Opaque {
		return e.callOpaque(pf, penv, argVals, rt)
	}
	r := penv.eval(pf.Body)
	if r.T == nil && r.Const != nil {
		r = g.constVal(rt, r.Const)
	}
	return r
}

// callOpaque: an opaque spec function is an uninterpreted application over its arguments and the
// heap versions its body reads; where revealed, the definition is added for this application.
func (e *Env) callOpaque(pf *PureFn, penv *Env, argVals []*SVal, rt types.Type) *SVal {
	g := e.g
	if !isScalarType(rt) {
		e.fail("opaque function %s must have a scalar result", pf.Name)
	}
	// probe: which heaps does the body read (for these arguments' shapes)?
	var probed []string
	saveProbe := g.heapProbe
	g.heapProbe = &probed
	probeEnv := *penv
	probeEnv.mode, probeEnv.pol = 0, 0
	g.inQuant++ // no fresh symbols, no definitions: a dry run
	func() {
		defer func() {
			if r := recover(); r != nil {
				if _, ok := r.(specErr); !ok {
					g.inQuant--
					g.heapProbe = saveProbe
					panic(r)
				}
			}
		}()
		probeEnv.eval(pf.Body)
	}()
	g.inQuant--
	g.heapProbe = saveProbe
	seen := map[string]bool{}
	var heaps []string
	for _, h := range probed {
		if !seen[h] {
			seen[h] = true
			heaps = append(heaps, h)
		}
	}
	sort.Strings(heaps)
	var fl, sorts []string
	for _, v := range argVals {
		fl = append(fl, flatten(v)...)
		for _, l := range g.W.leaves(v.T) {
			sorts = append(sorts, string(l.Sort))
		}
	}
	for _, h := range heaps {
		srt := g.heapSort[h]
		fl = append(fl, g.heapGet(e.cur, h, srt))
		sorts = append(sorts, string(srt))
	}
	name := sym("opq_" + pf.Name)
	g.declareUF(name, "("+strings.Join(sorts, " ")+") "+string(g.W.scalarSort(rt)))
	app := name
	if len(fl) > 0 {
		app = sApp(name, fl...)
	}
	res := scalar(rt, kindOf(rt), app)
	if g.reveals[pf.Name] && g.inQuant == 0 {
		key := app
		if g.opaqueDone == nil {
			g.opaqueDone = map[string]bool{}
		}
		if !g.opaqueDone[key] {
			g.opaqueDone[key] = true
			saveOv, saveOrigin := g.asmSeqOverride, g.curOrigin
			// definitional: valid everywhere
			if kindOf(rt) == KBool {
				pos := *penv
				pos.mode, pos.pol, pos.guard, pos.noInst = 1, 1, app, false
				t1 := pos.evalBool(pf.Body)
				neg := *penv
				neg.mode, neg.pol, neg.guard, neg.noInst = 1, -1, sNot(app), false
				t2 := neg.evalBool(pf.Body)
				for _, c := range splitAnd(t1) {
					g.addAxiom(sImp(app, c))
				}
				g.addAxiom(sImp(sNot(app), sNot(t2)))
			} else {
				r := penv.eval(pf.Body)
				g.addAxiom(sEq(app, r.Term))
			}
			g.asmSeqOverride, g.curOrigin = saveOv, saveOrigin
		}
	}
	return res
}

// callGo executes a Go function symbolically for its value (specification use).
func (e *Env) callGo(fn *ssa.Function, args []*SVal) *SVal {
	g := e.g
	if g.inQuant > 0 {
		// allowed, but no fresh declarations may be needed; inline execution defines names
	}
	fr := &Frame{g: g, fn: fn, curReach: "true", curState: g.clone(e.cur), depth: 1}
	if e.f != nil {
		fr.depth = e.f.depth + 1
	}
	saveObl := len(g.Obls)
	saveCtr := map[string]int{}
	for k, v := range g.kindCtr {
		saveCtr[k] = v
	}
	g.specMode++
	var rt types.Type
	switch fn.Signature.Results().Len() {
	case 0:
	case 1:
		rt = fn.Signature.Results().At(0).Type()
	default:
		rt = fn.Signature.Results()
	}
	var r *SVal
	if m := models[funcKey(fn)]; m != nil {
		r = m(fr, args, rt, token.NoPos)
	} else {
		r = fr.inlineCall(fn, args, nil, token.NoPos)
	}
	g.specMode--
	g.Obls = g.Obls[:saveObl]
	g.kindCtr = saveCtr
	if r == nil {
		e.fail("function %s returns nothing", fn.Name())
	}
	return r
}

// ------------------------------------------------------------------ locations

func (e *Env) evalLoc(x Expr) *SVal {
	g := e.g
	switch x := x.(type) {
	case *ESel:
		var base *SVal
		v := e.tryEval(x.X)
		if v != nil && v.K == KPtr {
			base = v
		} else {
			base = e.evalLoc(x.X)
		}
		pt := base.T.Underlying().(*types.Pointer)
		st := structOf(pt.Elem())
		if st == nil {
			e.fail("%s: not a struct", x.X.exprString())
		}
		idx, _ := fieldIndex(st, x.Name)
		if idx < 0 {
			e.fail("no field %s", x.Name)
		}
		r := g.fieldAddr(base, pt.Elem(), idx)
		r.Imm = base.Imm
		return r
	case *EIndex:
		v := e.eval(x.X)
		i := e.eval(x.I)
		if i.T == nil {
			i = g.constVal(tInt, i.Const)
		}
		switch v.K {
		case KSlice:
			return g.sliceElemAddr(v, idx64(i))
		case KPtr:
			if pt, ok := v.T.Underlying().(*types.Pointer); ok {
				if at, ok := pt.Elem().Underlying().(*types.Array); ok {
					return g.elemAddr(v.Term, idx64(i), at.Elem())
				}
			}
		}
		// array stored in a location
		loc := e.evalLoc(x.X)
		if at, ok := loc.T.Underlying().(*types.Pointer).Elem().Underlying().(*types.Array); ok {
			return g.elemAddr(loc.Term, idx64(i), at.Elem())
		}
	case *EUnary:
		if x.Op == "*" {
			return e.eval(x.X)
		}
	case *EIdent:
		// an address-taken local variable
		if e.f != nil && e.at != nil {
			if p := e.f.resolveAllocLocal(x.Name, e.at); p != nil {
				return p
			}
		}
		if e.pkg != nil {
			if o, ok := e.pkg.Scope().Lookup(x.Name).(*types.Var); ok {
				if gv := g.P.globalVar(o); gv != nil {
					return g.globalAddr(gv)
				}
			}
		}
	}
	e.fail("not a location: %s", x.exprString())
	return nil
}

func (e *Env) tryEval(x Expr) (v *SVal) {
	defer func() {
		if r := recover(); r != nil {
			if _, ok := r.(specErr); ok {
				v = nil
				return
			}
			panic(r)
		}
	}()
	return e.eval(x)
}

func (e *Env) evalMod(x Expr) []*modItem {
	g := e.g
	txt := x.exprString()
	switch x := x.(type) {
	case *EIdent:
		if x.Name == "everything" {
			return []*modItem{{kind: "star", text: txt}}
		}
		if strings.HasPrefix(x.Name, "$") {
			if ty, ok := g.P.Specs.Ghosts[x.Name[1:]]; ok {
				return []*modItem{{kind: "ghost", fam: "$ghost." + x.Name[1:], text: txt, base: ty}}
			}
			e.fail("undeclared ghost variable %s", x.Name)
		}
	case *ECall:
		if id, ok := x.Fun.(*EIdent); ok && id.Name == "pointee" && len(x.Args) == 1 {
			// pointee(v): the variable an interface value points to, where the dynamic type is a known
			// pointer type at this call (json.Decode(&x), ...)
			v := e.eval(x.Args[0])
			if v.K == KPtr {
				return g.locItems(v, v.T.Underlying().(*types.Pointer).Elem(), txt)
			}
			if v.K == KIface {
				tag := v.Sub[0].Term
				for id, tt := range g.W.tagTypes {
					if tag == bvLit(big.NewInt(int64(id+1)), 32) {
						if pt, ok := tt.Underlying().(*types.Pointer); ok {
							p := &SVal{T: tt, K: KPtr, Term: v.Sub[1].Term}
							if !isAggregate(pt.Elem()) {
								p.Prov = &Prov{Kind: 1, Fam: "C|" + typeKey(pt.Elem()), Idx: v.Sub[1].Term}
							}
							return g.locItems(p, pt.Elem(), txt)
						}
					}
				}
			}
			return []*modItem{{kind: "star", text: txt}}
		}
		if id, ok := x.Fun.(*EIdent); ok && id.Name == "atomicval" {
			p := e.evalLoc(x.Args[0])
			pt := p.T.Underlying().(*types.Pointer).Elem()
			if st := structOf(pt); st != nil {
				for i := 0; i < st.NumFields(); i++ {
					if st.Field(i).Name() == "v" {
						return g.locItems(g.fieldAddr(p, pt, i), st.Field(i).Type(), txt)
					}
				}
			}
			e.fail("atomicval: unsupported type %s", pt)
		}
	case *EStar:
		v := e.tryEval(x.X)
		if v == nil || v.K == KArray {
			v = e.evalLoc(x.X)
		}
		switch v.K {
		case KSlice:
			et := v.T.Underlying().(*types.Slice).Elem()
			if elemTwoLevel(et) {
				return []*modItem{{kind: "elemAll", fam: elemFam(et), base: v.Sub[0].Term, t: et, text: txt}}
			}
			return g.famItems(et, txt)
		case KPtr:
			if at, ok := v.T.Underlying().(*types.Pointer).Elem().Underlying().(*types.Array); ok {
				if elemTwoLevel(at.Elem()) {
					return []*modItem{{kind: "elemAll", fam: elemFam(at.Elem()), base: v.Term, t: at.Elem(), text: txt}}
				}
				return g.famItems(at.Elem(), txt)
			}
		case KMap:
			return []*modItem{{kind: "map", idx: v.Term, t: v.T, text: txt}}
		}
		e.fail("bad modifies item %s", txt)
	case *ESlice:
		v := e.slice(x)
		et := v.T.Underlying().(*types.Slice).Elem()
		if !elemTwoLevel(et) {
			return g.famItems(et, txt)
		}
		return []*modItem{{kind: "elemRange", fam: elemFam(et), base: v.Sub[0].Term, lo: v.Sub[1].Term, hi: sApp("bvadd", v.Sub[1].Term, v.Sub[2].Term), t: et, text: txt}}
	}
	p := e.evalLoc(x)
	return g.locItems(p, p.T.Underlying().(*types.Pointer).Elem(), txt)
}

// famItems: whole-family havoc for composite element types
func (g *Gen) famItems(t types.Type, txt string) []*modItem {
	var out []*modItem
	for n := range g.P.typeHeapNames(t, "S|"+typeKey(t)).names {
		out = append(out, &modItem{kind: "fam", fam: n, text: txt})
	}
	return out
}

func (g *Gen) locItems(p *SVal, t types.Type, txt string) []*modItem {
	switch kindOf(t) {
	case KStruct:
		st := structOf(t)
		var out []*modItem
		for i := 0; i < st.NumFields(); i++ {
			out = append(out, g.locItems(g.fieldAddr(p, t, i), st.Field(i).Type(), txt)...)
		}
		return out
	case KArray:
		at := t.Underlying().(*types.Array)
		if elemTwoLevel(at.Elem()) {
			return []*modItem{{kind: "elemAll", fam: elemFam(at.Elem()), base: p.Term, t: at.Elem(), text: txt}}
		}
		return g.famItems(at.Elem(), txt)
	}
	pr := g.provOf(p, t)
	switch pr.Kind {
	case 1:
		return []*modItem{{kind: "loc", fam: pr.Fam, idx: pr.Idx, t: t, text: txt}}
	case 2:
		return []*modItem{{kind: "elemRange", fam: pr.Fam, base: pr.Base, lo: pr.Idx, hi: sApp("bvadd", pr.Idx, bv64(1)), t: t, text: txt}}
	case 3:
		return []*modItem{{kind: "global", fam: pr.Fam, t: t, text: txt}}
	}
	panic(specErr("bad location " + txt))
}

// havocItem applies "this location may have changed" to st.
func (g *Gen) havocItem(st *State, reach string, it *modItem) {
	switch it.kind {
	case "ghost":
		if it.base == "bool" {
			g.heapSet(st, it.fam, SBool, g.fresh("ghost", SBool))
		} else {
			g.heapSet(st, it.fam, SBV64, g.fresh("ghost", SBV64))
		}
		return
	case "star":
		// caller replaces the state
		panic(specErr("modifies everything must be handled by the caller"))
	case "loc":
		for _, l := range g.W.leaves(it.t) {
			srt := arrSort(SBV64, l.Sort)
			hn := it.fam + "#" + l.Path
			h := g.heapGet(st, hn, srt)
			g.heapSet(st, hn, srt, sStore(h, it.idx, g.fresh("hv", l.Sort)))
		}
		g.assumeLocInv(st, reach, it)
	case "global":
		for _, l := range g.W.leaves(it.t) {
			hn := it.fam + "#" + l.Path
			g.heapSort[hn] = l.Sort
			st.heaps[hn] = g.fresh("hv", l.Sort)
		}
	case "elemAll":
		srt := g.elemHeapSort(it.t)
		h := g.heapGet(st, it.fam, srt)
		g.heapSet(st, it.fam, srt, sStore(h, it.base, g.fresh("hv", arrSort(SBV64, g.W.scalarSort(it.t)))))
	case "elemRange":
		srt := g.elemHeapSort(it.t)
		h := g.heapGet(st, it.fam, srt)
		na := g.fresh("hv", arrSort(SBV64, g.W.scalarSort(it.t)))
		k := g.nm("k")
		old := sSel(h, it.base)
		g.assume("true", fmt.Sprintf("(forall ((%s (_ BitVec 64))) (! (=> (not (and (bvsle %s %s) (bvslt %s %s))) (= (select %s %s) (select %s %s))) :pattern ((select %s %s))))",
			k, it.lo, k, k, it.hi, na, k, old, k, na, k))
		g.quantAsm = true
		g.heapSet(st, it.fam, srt, sStore(h, it.base, na))
	case "map":
		mt := it.t.Underlying().(*types.Map)
		ks := g.mapKeySort(mt)
		fd, fv, fl := mapFams(mt)
		ds := arrSort(SBV64, arrSort(ks, SBool))
		hd := g.heapGet(st, fd, ds)
		g.heapSet(st, fd, ds, sStore(hd, it.idx, g.fresh("hv", arrSort(ks, SBool))))
		ls := arrSort(SBV64, SBV64)
		hl := g.heapGet(st, fl, ls)
		g.heapSet(st, fl, ls, sStore(hl, it.idx, g.fresh("hv", SBV64)))
		for _, l := range g.W.leaves(mt.Elem()) {
			srt := arrSort(SBV64, arrSort(ks, l.Sort))
			h := g.heapGet(st, fv+"#"+l.Path, srt)
			g.heapSet(st, fv+"#"+l.Path, srt, sStore(h, it.idx, g.fresh("hv", arrSort(ks, l.Sort))))
		}
	case "fam":
		srt, ok := g.heapSort[it.fam]
		if ok {
			st.heaps[it.fam] = g.fresh("hv", srt)
		}
	}
}

// after havocking a location holding a slice/time/etc., its type invariant still holds
func (g *Gen) assumeLocInv(st *State, reach string, it *modItem) {
	switch kindOf(it.t) {
	case KSlice, KTime, KString:
		p := &SVal{T: types.NewPointer(it.t), K: KPtr, Term: it.idx, Prov: &Prov{Kind: 1, Fam: it.fam, Idx: it.idx}}
		v := g.load(st, p, it.t)
		g.assume(reach, g.typeInv(v))
	}
}

// resolveLocal maps a source-level local variable name to its SSA value at block 'at'.
// resolveAllocLocal: the cell of an address-taken local variable named name (unique by name in the
// function, allocated in a block dominating at).
func (f *Frame) resolveAllocLocal(name string, at *ssa.BasicBlock) *SVal {
	if f.fn == nil || at == nil {
		return nil
	}
	var found *ssa.Alloc
	for _, b := range f.fn.Blocks {
		for _, ins := range b.Instrs {
			if a, ok := ins.(*ssa.Alloc); ok && a.Comment == name && (b == at || b.Dominates(at)) {
				if found != nil {
					return nil // ambiguous (shadowing)
				}
				found = a
			}
		}
	}
	if found == nil {
		return nil
	}
	if v, ok := f.vals[found]; ok {
		return v
	}
	return nil
}

func (f *Frame) isParamName(name string) bool {
	if f.fn == nil {
		return false
	}
	for _, p := range f.fn.Params {
		if p.Name() == name {
			return true
		}
	}
	return false
}

func (f *Frame) resolveLocal(name string, at *ssa.BasicBlock, atIdx int, phiSub map[*ssa.Phi]*SVal) *SVal {
	return f.resolveLocalOpt(name, at, atIdx, phiSub, false)
}

func (f *Frame) resolveLocalOpt(name string, at *ssa.BasicBlock, atIdx int, phiSub map[*ssa.Phi]*SVal, skipParams bool) *SVal {
	if f.fn == nil {
		return nil
	}
	if f.nameOverride != nil {
		if v, ok := f.nameOverride[name]; ok {
			return v
		}
	}
	for _, p := range f.fn.Params {
		if p.Name() == name && !skipParams {
			if v, ok := f.vals[p]; ok {
				return v
			}
		}
	}
	for _, fv := range f.fn.FreeVars {
		if fv.Name() == name {
			if v, ok := f.vals[fv]; ok {
				return v
			}
		}
	}
	if at == nil {
		return nil
	}
	cname := strings.ReplaceAll(name, "_", ".")
	// candidates: phis (by comment) and DebugRefs (by identifier) that dominate 'at'
	var best ssa.Value
	var bestBlock *ssa.BasicBlock
	bestIdx := -1
	consider := func(v ssa.Value, b *ssa.BasicBlock, idx int) {
		_, isPhi := v.(*ssa.Phi)
		valid := b != at && b.Dominates(at) || b == at && (isPhi || idx < atIdx)
		if !valid {
			return
		}
		// latest along the dominator chain wins
		if best == nil || (bestBlock != b && bestBlock.Dominates(b)) || (bestBlock == b && idx > bestIdx) {
			best, bestBlock, bestIdx = v, b, idx
		}
	}
	for _, b := range f.fn.Blocks {
		for i, ins := range b.Instrs {
			switch x := ins.(type) {
			case *ssa.Phi:
				if x.Comment == name || x.Comment == cname {
					consider(x, b, i)
				}
			case *ssa.DebugRef:
				if x.IsAddr {
					continue
				}
				if obj := x.Object(); obj != nil && obj.Name() == name {
					consider(x.X, b, i)
				}
			}
		}
	}
	if best == nil {
		return nil
	}
	if phi, ok := best.(*ssa.Phi); ok && phiSub != nil {
		if v, ok := phiSub[phi]; ok {
			return v
		}
	}
	if v, ok := f.vals[best]; ok {
		return v
	}
	switch c := best.(type) {
	case *ssa.Const:
		return f.g.constOf(c)
	}
	return nil
}
