package main

import (
	"os"
	"runtime/debug"
	"fmt"
	"go/token"
	"go/types"
	"math/big"
	"sort"
	"strings"

	"golang.org/x/tools/go/ssa"
)

// ---------------------------------------------------------------------------
// Gen: one verification unit (a function under contract, a region, a lemma).
// It accumulates SMT declarations/definitions, assumptions and obligations.
// ---------------------------------------------------------------------------

type Obligation struct {
	Seq    int      // position in program order
	Ret    *retInfo // for ensures obligations: the return they were generated at
	Origin string
	Name   string // stable name: unit#kind#detail
	Kind   string // index, slice, nilmap, div, panic, typeassert, precond, ensures, invariant-entry, invariant-preserved, modifies, lemma, shift, cover
	Reach  string // reach condition term
	Goal   string // goal term (must hold whenever Reach)
	Pos    token.Position
	Desc   string
	Clause string // contract clause text if any
	Callee string
}

type Gen struct {
	W     *World
	P     *Program
	Unit  string
	decls []string
	asms  []asmRec
	seq   int // program order of assumptions and obligations
	asmSeqOverride int // when >0, new assumptions take this sequence number (instances of earlier hypotheses)
	Obls  []*Obligation
	ctr   int
	Notes map[string]bool // abstractions, trusted contracts used, assumptions
	heapSort map[string]Sort
	epochCtr int
	stateCtr int
	inlineDepth int
	inlineStack []string
	usedStr  bool
	usedEmul bool
	pureDefs map[string]bool
	covers   []string // reach terms of returns (vacuity cover)
	kindCtr  map[string]int
	modCheck []*modItem // caller's modifies frame (nil = unchecked)
	entry    *State
	ufDecl   map[string]bool
	maxNodes int
	quantAsm bool
	inQuant  int
	curRound int
	maxRound int
	shareCache map[string]string
	specMode int
	nonBlockingUnit bool // the unit's contract says nonblocking: calls to possibly blocking callees are obligations
	imm      *State
	qhyps     []*QHyp
	qbuilding []*QHyp
	readLog   []readRec
	readSeen  map[string]bool
	named     map[Sort][]namedTerm
	namedSeen map[string]bool
	coverPos  []string // source positions of the returns in covers
	packedOf  map[string]string
	sliceDataOf map[string]*SVal
	strLog      []strRec // string(b[i:j]) conversions seen so far (for frame instances at byte stores) // opaque pointer returned by unsafe.SliceData -> the slice it came from // array term -> its packed bit-vector, where known
	verWM     map[string]string // heap version -> allocation watermark when it was created
	axiomSeen  map[string]bool
	initDone   map[string]bool
	specInit   int
	UsedLemmas map[string]bool
	slicer     *slicer
	reveals   map[string]bool   // opaque spec functions whose definition is visible in this unit
	heapProbe *[]string         // when set, heapGet records the heap names it is asked for
	opaqueDone map[string]bool
	curOrigin string            // "" = program; otherwise the goal being evaluated
	originCtr int
	privAsms  map[string][]asmRec // origin -> assumptions private to that goal
}

type namedTerm struct {
	term, origin string
	signed, ptr  bool
	packed       string
}

// asmRec: an assumption with its position in program order. An obligation may
// only use assumptions made before it (otherwise the "assume what was just
// checked" facts of later - or the same - checks would make it vacuous).
type asmRec struct {
	seq  int
	text string
	// round: 0 for an assumption of the program or contract; k >= 1 for a ground instance of a quantified
	// hypothesis made in instantiation round k (early proof stages use only the first round's instances)
	round int
}

func (g *Gen) addAsm(text string) {
	g.seq++
	sq := g.seq
	if g.asmSeqOverride > 0 {
		sq = g.asmSeqOverride
	}
	g.asms = append(g.asms, asmRec{sq, text, g.curRound})
}

// axiom: valid in every state, usable by every obligation
func (g *Gen) addAxiom(text string) {
	if text == "true" {
		return
	}
	if g.axiomSeen == nil {
		g.axiomSeen = map[string]bool{}
	}
	if g.axiomSeen[text] {
		return
	}
	g.axiomSeen[text] = true
	g.asms = append(g.asms, asmRec{0, text, g.curRound})
}

func (g *Gen) beginGoal() string {
	g.originCtr++
	g.curOrigin = fmt.Sprintf("goal%d", g.originCtr)
	return g.curOrigin
}

func (g *Gen) endGoal() { g.curOrigin = "" }

// addNamed registers a ground term as an instantiation candidate.
func (g *Gen) addNamed(v *SVal) {
	if v == nil {
		return
	}
	if len(v.Sub) > 0 {
		for _, s := range v.Sub {
			g.addNamed(s)
		}
		return
	}
	if v.T == nil || !(v.K == KInt || v.K == KPtr || v.K == KString || v.K == KOpaque || v.K == KArray) || g.inQuant > 0 {
		return
	}
	srt := g.W.scalarSort(v.T)
	if g.named == nil {
		g.named = map[Sort][]namedTerm{}
		g.namedSeen = map[string]bool{}
	}
	k := string(srt) + "|" + v.Term + "|" + g.curOrigin
	if g.namedSeen[k] || g.namedSeen[string(srt)+"|"+v.Term+"|"] {
		return
	}
	g.namedSeen[k] = true
	if v.Packed != "" {
		if g.packedOf == nil {
			g.packedOf = map[string]string{}
		}
		g.packedOf[v.Term] = v.Packed
	}
	_, sg := intInfo(v.T)
	g.named[srt] = append(g.named[srt], namedTerm{v.Term, g.curOrigin, sg && v.K == KInt, v.K == KPtr, v.Packed})
}

// logRead records an element read for hypothesis instantiation.
func (g *Gen) logRead(fam, base, off, rel, idx string) {
	if g.inQuant > 0 {
		// a read under a binder: remember it as a pattern of the hypotheses being built
		for _, qh := range g.qbuilding {
			for vi, sym := range qh.syms {
				if rel == sym {
					qh.reads[vi] = append(qh.reads[vi], readRec{fam, base, off, rel, idx, ""})
				}
			}
		}
		return
	}
	k := fam + "|" + base + "|" + idx + "|" + g.curOrigin
	if g.readSeen == nil {
		g.readSeen = map[string]bool{}
	}
	if g.readSeen[k] || g.readSeen[fam+"|"+base+"|"+idx+"|"] {
		return
	}
	g.readSeen[k] = true
	g.readLog = append(g.readLog, readRec{fam, base, off, rel, idx, g.curOrigin})
}

// instantiate adds ground instances of the quantified hypotheses. Candidate
// terms carry an origin: "" for terms of the program itself, or the goal whose
// evaluation produced them. An instance built from one goal's terms is private
// to that goal's query.
func (g *Gen) instantiate(rounds int) int {
	total := 0
	rounds = 3
	if v := os.Getenv("GOVC_ROUNDS"); v != "" {
		fmt.Sscanf(v, "%d", &rounds)
	}
	if g.privAsms == nil {
		g.privAsms = map[string][]asmRec{}
	}
	type cand struct{ term, origin string }
	defer func() { g.curRound = 0 }()
	for r := 0; r < rounds; r++ {
		g.curRound = r + 1
		if g.curRound > g.maxRound {
			g.maxRound = g.curRound
		}
		added := 0
		hyps := g.qhyps
		logSnap := append([]readRec{}, g.readLog...)
		for _, qh := range hyps {
			cands := make([][]cand, len(qh.vars))
			for vi := range qh.vars {
				seen := map[string]bool{}
				perOrigin := map[string]int{}
				add := func(t, o string) {
					if seen[t+"|"+o] || seen[t+"|"] {
						return
					}
					if perOrigin[o] >= 40 {
						return
					}
					perOrigin[o]++
					seen[t+"|"+o] = true
					cands[vi] = append(cands[vi], cand{t, o})
				}
				for _, pat := range qh.reads[vi] {
					for _, rd := range logSnap {
						if rd.fam != pat.fam {
							continue
						}
						if rd.off == pat.off && rd.rel != "" {
							add(rd.rel, rd.origin)
						} else {
							add(sApp("bvsub", rd.idx, pat.off), rd.origin)
						}
					}
				}
				srt := g.W.scalarSort(qh.types[vi])
				_, wantSigned := intInfo(qh.types[vi])
				wantPtr := kindOf(qh.types[vi]) == KPtr
				wantSigned = wantSigned && kindOf(qh.types[vi]) == KInt
				for _, t := range g.named[srt] {
					// same signedness / pointer-ness only: a uint64 counter is not instantiated with loop indices or pointers
					if t.ptr != wantPtr || t.signed != wantSigned {
						continue
					}
					add(t.term, t.origin)
				}
			}
			type tuple struct {
				terms  []string
				origin string
			}
			tuples := []tuple{{}}
			for vi := range qh.vars {
				var nt []tuple
				for _, t := range tuples {
					for _, c := range cands[vi] {
						o := t.origin
						if c.origin != "" {
							if o != "" && o != c.origin {
								continue // mixes two goals
							}
							o = c.origin
						}
						nt = append(nt, tuple{append(append([]string{}, t.terms...), c.term), o})
						if len(nt) > 4000 {
							break
						}
					}
				}
				tuples = nt
			}
			for _, tup := range tuples {
				if len(tup.terms) != len(qh.vars) {
					continue
				}
				key := strings.Join(tup.terms, "|") + "@" + tup.origin
				if qh.done[key] || qh.done[strings.Join(tup.terms, "|")+"@"] {
					continue
				}
				qh.done[key] = true
				env := qh.env.child()
				for vi, qv := range qh.vars {
					t := qh.types[vi]
					if pn := packedKeyLen(t); pn > 0 {
					parts := make([]string, 0, pn)
					at := tup.terms[vi]
					if g.packedOf[at] == "" && len(at) > 40 {
						at = g.define("candarr", g.W.scalarSort(t), at)
					}
					for i := int64(0); i < pn; i++ {
						parts = append(parts, sSel(at, bv64(i)))
					}
					pk := parts[0]
					if pn > 1 {
						pk = "(concat " + strings.Join(parts, " ") + ")"
					}
					if p := g.packedOf[tup.terms[vi]]; p != "" {
						pk = p
					} else {
						pk = g.define("candkey", Sort(fmt.Sprintf("(_ BitVec %d)", 8*pn)), pk)
					}
					env.vars[qv.Name] = &SVal{T: t, K: KArray, Term: tup.terms[vi], Packed: pk}
				} else {
					env.vars[qv.Name] = scalar(t, kindOf(t), tup.terms[vi])
				}
				}
				env.mode, env.pol, env.guard, env.noInst = 1, 1, qh.guard, false
				if qh.negate {
					env.pol, env.noInst = -1, true
				}
				func() {
					defer func() {
						g.curOrigin = ""
						if rc := recover(); rc != nil {
							if _, ok := rc.(specErr); ok {
								return
							}
							panic(rc)
						}
					}()
					g.curOrigin = tup.origin
					// the instance is a consequence of a hypothesis assumed at qh.seq
					saveOv := g.asmSeqOverride
					g.asmSeqOverride = qh.seq
					defer func() { g.asmSeqOverride = saveOv }()
					t := env.evalBool(qh.body)
					if qh.negate {
						t = sNot(t)
					}
					if tup.origin == "" {
						g.assume(qh.guard, t)
					} else {
						for _, c := range splitAnd(t) {
							g.privAsms[tup.origin] = append(g.privAsms[tup.origin], asmRec{qh.seq, sImp(qh.guard, c), g.curRound})
						}
					}
					added++
				}()
			}
		}
		total += added
		if os.Getenv("GOVC_DEBUG_INST") != "" {
			fmt.Fprintf(os.Stderr, "instantiate %s round %d: %d hyps, %d instances added\n", g.Unit, r, len(hyps), added)
			for _, qh := range hyps {
				fmt.Fprintf(os.Stderr, "   %5d  %s\n", len(qh.done), truncStr(qh.text, 100))
			}
		}
		if added == 0 {
			break
		}
		// cap on query size: deeper rounds only refine a small instance set (a large one slows every
		// back end down far more than the extra instances help; the full stage still has the
		// quantified hypotheses themselves)
		if total > 300 {
			break
		}
	}
	return total
}

// immState: the state in which immutable globals are read (never havocked)
func (g *Gen) immState() *State {
	if g.imm == nil {
		g.stateCtr++
		g.imm = &State{id: g.stateCtr, heaps: map[string]string{}, epoch: 0}
		// objects allocated by package initializers live above every global's fixed address
		g.addAxiom(wmInv(g.heapGet(g.imm, allocHeap, allocSort)))
	}
	return g.imm
}

func newGen(p *Program, unit string) *Gen {
	g := &Gen{W: p.W, P: p, Unit: unit, Notes: map[string]bool{}, heapSort: map[string]Sort{}, pureDefs: map[string]bool{}, kindCtr: map[string]int{}, ufDecl: map[string]bool{}}
	// units are built one at a time; large array operands of element-wise equalities get names
	eqDefiner = func(srt Sort, term string) string {
		if g.inQuant > 0 {
			return term
		}
		return g.define("arr", srt, term)
	}
	return g
}

func (g *Gen) note(format string, a ...any) { g.Notes[fmt.Sprintf(format, a...)] = true }

func (g *Gen) nm(prefix string) string {
	g.ctr++
	return sym(fmt.Sprintf("%s!%d", prefix, g.ctr))
}

func (g *Gen) fresh(prefix string, s Sort) string {
	if g.inQuant > 0 {
		if os.Getenv("GOVC_DEBUG") != "" {
			debug.PrintStack()
		}
		panic(specErr("expression under a quantifier needs a fresh symbol (" + prefix + "); not supported"))
	}
	n := g.nm(prefix)
	g.decls = append(g.decls, fmt.Sprintf("(declare-const %s %s)", n, s))
	return n
}

func isAtom(t string) bool { return !strings.ContainsAny(t, " (") || strings.HasPrefix(t, "#") }

func (g *Gen) define(prefix string, s Sort, term string) string {
	if isAtom(term) || g.inQuant > 0 {
		return term
	}
	n := g.nm(prefix)
	g.decls = append(g.decls, fmt.Sprintf("(define-fun %s () %s %s)", n, s, term))
	return n
}

// shared: a long ground scalar term gets a name of its own (once per distinct text), so that the many places
// a specification repeats it - inlined spec functions, instances of quantified hypotheses - share it.
func (g *Gen) shared(v *SVal) *SVal {
	if v == nil || g.inQuant > 0 || len(v.Sub) > 0 || len(v.Term) < 60 || len(g.qbuilding) > 0 {
		return v
	}
	switch v.K {
	case KBool, KInt, KPtr, KMap, KChan, KString:
	default:
		return v
	}
	if g.shareCache == nil {
		g.shareCache = map[string]string{}
	}
	n, ok := g.shareCache[v.Term]
	if !ok {
		n = g.define("sh", g.W.scalarSort(v.T), v.Term)
		g.shareCache[v.Term] = n
	}
	c := *v
	c.Term = n
	return &c
}

func (g *Gen) assume(reach, fact string) {
	for _, c := range splitAnd(fact) {
		if c == "true" {
			continue
		}
		g.addAsm(sImp(reach, c))
	}
}

// splitAnd splits a top-level (and a b ...) into its conjuncts, recursively;
// (=> g (and a b)) is distributed. Quantified conjuncts can then be dropped
// individually in the quantifier-free stage.
func splitAnd(t string) []string {
	if strings.HasPrefix(t, "(and ") {
		var out []string
		for _, a := range sexpArgs(t) {
			out = append(out, splitAnd(a)...)
		}
		return out
	}
	if strings.HasPrefix(t, "(=> ") {
		args := sexpArgs(t)
		if len(args) == 2 && strings.HasPrefix(args[1], "(and ") {
			var out []string
			for _, c := range splitAnd(args[1]) {
				out = append(out, sImp(args[0], c))
			}
			return out
		}
	}
	return []string{t}
}

// sexpArgs returns the arguments of "(op a b ...)".
func sexpArgs(t string) []string {
	var out []string
	i := 1
	// skip operator
	for i < len(t) && t[i] != ' ' {
		i++
	}
	for i < len(t) {
		for i < len(t) && t[i] == ' ' {
			i++
		}
		if i >= len(t) || t[i] == ')' {
			break
		}
		start := i
		switch t[i] {
		case '(':
			d := 0
			for i < len(t) {
				if t[i] == '(' {
					d++
				} else if t[i] == ')' {
					d--
					if d == 0 {
						i++
						break
					}
				} else if t[i] == '|' {
					i++
					for i < len(t) && t[i] != '|' {
						i++
					}
				}
				i++
			}
		case '|':
			i++
			for i < len(t) && t[i] != '|' {
				i++
			}
			i++
		default:
			for i < len(t) && t[i] != ' ' && t[i] != ')' {
				i++
			}
		}
		out = append(out, t[start:i])
	}
	return out
}

func (g *Gen) declareUF(name string, sig string) {
	if g.ufDecl[name] {
		return
	}
	g.ufDecl[name] = true
	g.decls = append(g.decls, fmt.Sprintf("(declare-fun %s %s)", name, sig))
}

func (g *Gen) oblige(kind, reach, goal string, pos token.Position, desc string) *Obligation {
	g.kindCtr[kind]++
	g.seq++
	o := &Obligation{Kind: kind, Reach: reach, Goal: goal, Pos: pos, Desc: desc, Origin: g.curOrigin, Seq: g.seq}
	o.Name = fmt.Sprintf("%s#%s#%d", g.Unit, kind, g.kindCtr[kind])
	g.Obls = append(g.Obls, o)
	return o
}

// ---------------------------------------------------------------------------
// State: heap versions. Heaps are declared lazily.
// ---------------------------------------------------------------------------

type State struct {
	id      int
	heaps   map[string]string
	epoch   int
	parents []*State
	conds   []string
}

func (g *Gen) newEpochState() *State {
	g.stateCtr++
	g.epochCtr++
	return &State{id: g.stateCtr, heaps: map[string]string{}, epoch: g.epochCtr}
}

func (g *Gen) clone(s *State) *State {
	g.stateCtr++
	n := &State{id: g.stateCtr, heaps: make(map[string]string, len(s.heaps)), epoch: s.epoch, parents: s.parents, conds: s.conds}
	for k, v := range s.heaps {
		n.heaps[k] = v
	}
	return n
}

func (g *Gen) heapGet(s *State, name string, srt Sort) string {
	if g.heapProbe != nil && name != allocHeap {
		*g.heapProbe = append(*g.heapProbe, name)
	}
	if t, ok := s.heaps[name]; ok {
		return t
	}
	if old, ok := g.heapSort[name]; ok && old != srt {
		panic(fmt.Sprintf("heap %s used at sorts %s and %s", name, old, srt))
	}
	g.heapSort[name] = srt
	var t string
	if len(s.parents) > 0 {
		t = g.heapGet(s.parents[len(s.parents)-1], name, srt)
		for i := len(s.parents) - 2; i >= 0; i-- {
			t = sIte(s.conds[i], g.heapGet(s.parents[i], name, srt), t)
		}
		t = g.define("h", srt, t)
	} else {
		n := sym(fmt.Sprintf("%s@e%d", name, s.epoch))
		if !g.ufDecl["heap:"+n] {
			g.ufDecl["heap:"+n] = true
			g.decls = append(g.decls, fmt.Sprintf("(declare-const %s %s)", n, srt))
		}
		t = n
	}
	s.heaps[name] = t
	return t
}

func (g *Gen) heapSet(s *State, name string, srt Sort, term string) {
	g.heapSort[name] = srt
	v := g.define("h", srt, term)
	s.heaps[name] = v
	if name != allocHeap {
		if g.verWM == nil {
			g.verWM = map[string]string{}
		}
		// every reference stored in this version exists now
		if wm, ok := s.heaps[allocHeap]; ok {
			g.verWM[v] = wm
		} else {
			g.verWM[v] = g.heapGet(s, allocHeap, allocSort)
		}
	}
}

// allocatedIn: references read from heap version ver existed when that version was created
func (g *Gen) allocatedIn(st *State, ver string, ref string) string {
	return sOr(sEq(ref, bv64(0)), sApp("bvult", objOf(ref), g.versionWM(st, ver)))
}

// versionWM: the allocation watermark at the time heap version ver was created
func (g *Gen) versionWM(st *State, ver string) string {
	wm, ok := g.verWM[ver]
	if !ok {
		if i := strings.LastIndex(ver, "@e"); i >= 0 {
			// an initial heap of some epoch: its contents exist at that epoch's initial watermark
			wm = sym(fmt.Sprintf("%s@e%s", allocHeap, strings.TrimSuffix(ver[i+2:], "|")))
			if !g.ufDecl["heap:"+wm] {
				wm = g.heapGet(st, allocHeap, allocSort)
			}
		} else {
			wm = g.heapGet(st, allocHeap, allocSort)
		}
	}
	return wm
}

// refFactsAt: what is known about references read through p from heap version ver: they existed when that
// version was created - provided the location read existed then. A heap version says nothing about addresses
// allocated after it was created: a callee that allocates and changes no existing location ("modifies
// nothing", "ensures fresh(result)") leaves every heap version in place, and the fields of its new object
// are read from those old versions.
func (g *Gen) refFactsAt(st *State, ver string, p *SVal, v *SVal) string {
	facts := g.refFactsVer(st, ver, v)
	if facts == "true" || p == nil {
		return facts
	}
	loc := p.Term
	if p.Prov != nil && p.Prov.Kind == 2 && p.Prov.Base != "" {
		loc = p.Prov.Base
	}
	if loc == "" {
		return facts
	}
	return sImp(sApp("bvult", objOf(loc), g.versionWM(st, ver)), facts)
}

// refFactsVer: like refFacts but relative to the heap version the value was read from
func (g *Gen) refFactsVer(st *State, ver string, v *SVal) string {
	switch v.K {
	case KPtr:
		return sAnd(g.allocatedIn(st, ver, v.Term), insideObject(v))
	case KMap:
		return g.allocatedIn(st, ver, v.Term)
	case KSlice:
		return g.allocatedIn(st, ver, v.Sub[0].Term)
	case KStruct, KTuple:
		var xs []string
		for _, s := range v.Sub {
			xs = append(xs, g.refFactsVer(st, ver, s))
		}
		return sAnd(xs...)
	}
	return "true"
}

// versionOf: the heap version a load through p (type t) reads (first leaf)
func (g *Gen) versionOf(st *State, p *SVal, t types.Type) string {
	if isAggregate(t) || p.Prov == nil || p.Prov.Kind == 3 || p.Prov.Kind == -1 {
		return ""
	}
	ls := g.W.leaves(t)
	if len(ls) == 0 {
		return ""
	}
	switch p.Prov.Kind {
	case 1:
		return g.heapGet(st, p.Prov.Fam+"#"+ls[0].Path, arrSort(SBV64, ls[0].Sort))
	case 2:
		return g.heapGet(st, p.Prov.Fam, g.elemHeapSort(t))
	}
	return ""
}

// join merges predecessor states under edge conditions.
func (g *Gen) join(states []*State, conds []string) *State {
	if len(states) == 1 {
		return g.clone(states[0])
	}
	g.stateCtr++
	n := &State{id: g.stateCtr, heaps: map[string]string{}, parents: states, conds: conds}
	names := map[string]bool{}
	for _, s := range states {
		for k := range s.heaps {
			names[k] = true
		}
	}
	ks := make([]string, 0, len(names))
	for k := range names {
		ks = append(ks, k)
	}
	sort.Strings(ks)
	for _, k := range ks {
		srt := g.heapSort[k]
		same := true
		first := g.heapGet(states[0], k, srt)
		for _, s := range states[1:] {
			if g.heapGet(s, k, srt) != first {
				same = false
			}
		}
		if same {
			n.heaps[k] = first
			continue
		}
		t := g.heapGet(states[len(states)-1], k, srt)
		for i := len(states) - 2; i >= 0; i-- {
			t = sIte(conds[i], g.heapGet(states[i], k, srt), t)
		}
		n.heaps[k] = g.define("h", srt, t)
	}
	return n
}

// ---------------------------------------------------------------------------
// Values: fresh, zero, constants, type invariants
// ---------------------------------------------------------------------------

func (g *Gen) freshVal(t types.Type, hint string) *SVal {
	if kindOf(t) == KTuple {
		tup := t.(*types.Tuple)
		v := &SVal{T: t, K: KTuple}
		for i := 0; i < tup.Len(); i++ {
			v.Sub = append(v.Sub, g.freshVal(tup.At(i).Type(), fmt.Sprintf("%s.%d", hint, i)))
		}
		return v
	}
	if g.inQuant > 0 {
		panic(specErr("expression under a quantifier needs a fresh value (" + hint + "); not supported"))
	}
	base := g.nm(hint)
	base = strings.Trim(base, "|")
	return g.W.buildVal(t, "", func(path string, s Sort) string {
		n := sym(base + "." + path)
		if path == "" {
			n = sym(base)
		}
		g.decls = append(g.decls, fmt.Sprintf("(declare-const %s %s)", n, s))
		return n
	})
}

const maxLenBits = 48

func (g *Gen) lenBound(t string) string {
	return sAnd(sApp("bvsle", bv64(0), t), sApp("bvsle", t, bv64(1<<maxLenBits)))
}

// typeInv: facts guaranteed by the Go runtime for any value of this type.
func (g *Gen) typeInv(v *SVal) string {
	switch v.K {
	case KSlice:
		base, off, ln, cp := v.Sub[0].Term, v.Sub[1].Term, v.Sub[2].Term, v.Sub[3].Term
		return sAnd(
			g.lenBound(off), g.lenBound(ln), g.lenBound(cp),
			sApp("bvsle", ln, cp),
			sImp(sEq(base, bv64(0)), sAnd(sEq(cp, bv64(0)), sEq(off, bv64(0)))),
		)
	case KString:
		g.usedStr = true
		return g.lenBound(sApp("strlen", v.Term))
	case KIface:
		return sImp(sEq(v.Sub[0].Term, bvLit(big.NewInt(0), 32)), sEq(v.Sub[1].Term, bv64(0)))
	case KTime:
		return sAnd(sApp("bvsle", bv64(0), v.Sub[1].Term), sApp("bvslt", v.Sub[1].Term, bv64(1000000000)),
			sApp("bvslt", bv64(-(1 << 40)), v.Sub[0].Term), sApp("bvslt", v.Sub[0].Term, bv64(1<<40)))
	case KStruct, KTuple:
		var xs []string
		for _, s := range v.Sub {
			xs = append(xs, g.typeInv(s))
		}
		return sAnd(xs...)
	}
	return "true"
}

func (g *Gen) zeroScalar(t types.Type) string {
	switch kindOf(t) {
	case KBool:
		return "false"
	case KInt:
		b, _ := intInfo(t)
		return bvLit(big.NewInt(0), b)
	case KPtr, KMap, KChan, KFunc, KUnsafePtr:
		return bv64(0)
	case KString:
		g.usedStr = true
		return "str_empty"
	case KFloat:
		g.declareUF("f64_zero", "() F64")
		return "f64_zero"
	case KOpaque:
		s := g.W.scalarSort(t)
		n := "zero_" + string(s)
		g.declareUF(n, "() "+string(s))
		return n
	case KArray:
		a := t.Underlying().(*types.Array)
		return g.constArray(g.W.scalarSort(t), g.W.scalarSort(a.Elem()), g.zeroScalar(a.Elem()))
	}
	panic(unsupported("zero of " + t.String()))
}

// constArray: an array holding v everywhere. Solvers accept (as const ...) only for interpreted values;
// for uninterpreted sorts a named array with a defining axiom is used instead.
func (g *Gen) constArray(arrS Sort, elemS Sort, v string) string {
	if strings.HasPrefix(string(elemS), "(_ BitVec") || elemS == SBool || strings.HasPrefix(v, "((as const") {
		return fmt.Sprintf("((as const %s) %s)", arrS, v)
	}
	name := sym("constarr!" + string(elemS) + "!" + v)
	if !g.ufDecl[name] {
		g.ufDecl[name] = true
		g.decls = append(g.decls, fmt.Sprintf("(declare-const %s %s)", name, arrS))
		g.addAxiom(fmt.Sprintf("(forall ((i (_ BitVec 64))) (! (= (select %s i) %s) :pattern ((select %s i))))", name, v, name))
	}
	return name
}

func (g *Gen) zero(t types.Type) *SVal {
	switch kindOf(t) {
	case KEmpty:
		return &SVal{T: t, K: KEmpty}
	case KSlice:
		z := scalar(tInt, KInt, bv64(0))
		return &SVal{T: t, K: KSlice, Sub: []*SVal{z, z, z, z}}
	case KIface:
		return &SVal{T: t, K: KIface, Sub: []*SVal{scalar(tUint32, KInt, bvLit(big.NewInt(0), 32)), scalar(tUPtr, KInt, bv64(0))}}
	case KTime:
		// the zero time.Time is year 1: far in the past
		return &SVal{T: t, K: KTime, Sub: []*SVal{scalar(tInt64, KInt, bv64(-62135596800)), scalar(tInt64, KInt, bv64(0))}}
	case KStruct:
		st := t.Underlying().(*types.Struct)
		v := &SVal{T: t, K: KStruct}
		for i := 0; i < st.NumFields(); i++ {
			v.Sub = append(v.Sub, g.zero(st.Field(i).Type()))
		}
		return v
	case KTuple:
		tup := t.(*types.Tuple)
		v := &SVal{T: t, K: KTuple}
		for i := 0; i < tup.Len(); i++ {
			v.Sub = append(v.Sub, g.zero(tup.At(i).Type()))
		}
		return v
	case KArray:
		if !isScalarType(t) {
			panic(unsupported("zero value of array of composites " + t.String()))
		}
	}
	return scalar(t, kindOf(t), g.zeroScalar(t))
}

// ite over values of the same type
func (g *Gen) iteVal(c string, a, b *SVal) *SVal {
	if a == b {
		return a
	}
	if a.K == KEmpty {
		return a
	}
	if len(a.Sub) > 0 || a.K == KStruct || a.K == KTuple {
		v := &SVal{T: a.T, K: a.K}
		for i := range a.Sub {
			v.Sub = append(v.Sub, g.iteVal(c, a.Sub[i], b.Sub[i]))
		}
		return v
	}
	r := &SVal{T: a.T, K: a.K, Term: sIte(c, a.Term, b.Term)}
	if a.Prov != nil && b.Prov != nil && *a.Prov == *b.Prov {
		r.Prov = a.Prov
	} else if a.Prov != nil || b.Prov != nil {
		r.Prov = &Prov{Kind: -1}
	}
	if a.Off == b.Off {
		r.Off = a.Off
	}
	r.Imm = a.Imm && b.Imm
	if a.Clo != nil && b.Clo != nil && a.Clo.Fn == b.Clo.Fn && len(a.Clo.Bindings) == 0 {
		r.Clo = a.Clo
	}
	return r
}

// name all leaves of v (keeps terms small)
func (g *Gen) nameVal(hint string, v *SVal) *SVal {
	if v == nil {
		return nil
	}
	if v.K == KEmpty {
		return v
	}
	if len(v.Sub) > 0 || v.K == KStruct || v.K == KTuple {
		n := &SVal{T: v.T, K: v.K, Prov: v.Prov}
		for _, s := range v.Sub {
			n.Sub = append(n.Sub, g.nameVal(hint, s))
		}
		return n
	}
	if v.Const != nil && v.T == nil {
		return v
	}
	var srt Sort
	switch v.K {
	case KBool:
		srt = SBool
	default:
		srt = g.sortOfVal(v)
	}
	return &SVal{T: v.T, K: v.K, Term: g.define(hint, srt, v.Term), Prov: v.Prov, Const: v.Const, Clo: v.Clo, Imm: v.Imm, Off: v.Off}
}

func (g *Gen) sortOfVal(v *SVal) Sort {
	if v.T == nil {
		return SBV64
	}
	return g.W.scalarSort(v.T)
}

// eqDefiner names a large term (set while a unit is being built; nil otherwise)
var eqDefiner func(srt Sort, term string) string

func eqVal(a, b *SVal) string {
	// Go array equality is element-wise over the array's length (an SMT array value also has entries
	// beyond it, which carry no meaning)
	if a.K == KArray && b.K == KArray && a.T != nil {
		if at, ok := a.T.Underlying().(*types.Array); ok && at.Len() <= 64 && elemBits(at.Elem()) > 0 {
			var xs []string
			ta, tb := a.Term, b.Term
			if eqDefiner != nil {
				srt := arrSort(SBV64, Sort(fmt.Sprintf("(_ BitVec %d)", elemBits(at.Elem()))))
				if len(ta) > 60 {
					ta = eqDefiner(srt, ta)
				}
				if len(tb) > 60 {
					tb = eqDefiner(srt, tb)
				}
			}
			for i := int64(0); i < at.Len(); i++ {
				xs = append(xs, sEq(sSel(ta, bv64(i)), sSel(tb, bv64(i))))
			}
			return sAnd(xs...)
		}
	}
	if len(a.Sub) > 0 && len(a.Sub) == len(b.Sub) && a.K == b.K && (a.K == KStruct || a.K == KTuple) {
		var xs []string
		for i := range a.Sub {
			xs = append(xs, eqVal(a.Sub[i], b.Sub[i]))
		}
		return sAnd(xs...)
	}
	fa, fb := flatten(a), flatten(b)
	if len(fa) != len(fb) {
		panic(unsupported("equality of differently shaped values"))
	}
	var xs []string
	for i := range fa {
		xs = append(xs, sEq(fa[i], fb[i]))
	}
	return sAnd(xs...)
}

// ---------------------------------------------------------------------------
// Memory: families, loads and stores
// ---------------------------------------------------------------------------

const allocHeap = "$alloc"

// Allocation is a watermark: every object that exists has its start address
// (the reference with the low 20 bits cleared) below the watermark; a new
// object is placed at the watermark. Monotone by construction, so a havoc of
// the watermark (loops, calls) only needs wm' >= wm.
var allocSort = SBV64

const objMask = int64(^((1 << 20) - 1))

func objOf(ref string) string { return sApp("bvand", ref, bv64(objMask)) }

// newRef allocates a fresh object reference.
func (g *Gen) newRef(st *State, reach string, hint string) string {
	wm := g.heapGet(st, allocHeap, allocSort)
	r := g.define(hint, SBV64, wm)
	g.heapSet(st, allocHeap, allocSort, sApp("bvadd", wm, bv64(1<<20)))
	return r
}

// wmInv: the watermark is aligned, non-zero and far from wrapping
func wmInv(wm string) string {
	return sAnd(sEq(objOf(wm), wm), sApp("bvuge", wm, bv64(1<<41)), sApp("bvult", wm, bv64(1<<62)))
}

// allocated: fact assumed for references that exist in state st
func (g *Gen) allocated(st *State, ref string) string {
	wm := g.heapGet(st, allocHeap, allocSort)
	return sOr(sEq(ref, bv64(0)), sApp("bvult", objOf(ref), wm))
}

// havocAlloc: allocation may have happened
func (g *Gen) havocAlloc(st *State, reach string) {
	wm := g.heapGet(st, allocHeap, allocSort)
	n := g.fresh("wm", SBV64)
	g.assume("true", sAnd(sApp("bvuge", n, wm), wmInv(n)))
	st.heaps[allocHeap] = n
}

// insideObject: a typed pointer's pointee lies inside one allocated object (objects are < 1 MiB)
func insideObject(v *SVal) string {
	if v.K != KPtr || v.T == nil {
		return "true"
	}
	pt, ok := v.T.Underlying().(*types.Pointer)
	if !ok {
		return "true"
	}
	var sz int64
	func() {
		defer func() { recover() }()
		sz = sizes.Sizeof(pt.Elem())
	}()
	if sz <= 0 || sz > 1<<19 {
		return "true"
	}
	return sOr(sEq(v.Term, bv64(0)), sApp("bvule", sApp("bvadd", sApp("bvand", v.Term, bv64((1<<20)-1)), bv64(sz)), bv64(1<<20)))
}

// refFacts collects allocation facts for every reference inside v.
func (g *Gen) refFacts(st *State, v *SVal) string {
	switch v.K {
	case KPtr:
		return sAnd(g.allocated(st, v.Term), insideObject(v))
	case KMap:
		return g.allocated(st, v.Term)
	case KSlice:
		return g.allocated(st, v.Sub[0].Term)
	case KStruct, KTuple:
		var xs []string
		for _, s := range v.Sub {
			xs = append(xs, g.refFacts(st, s))
		}
		return sAnd(xs...)
	}
	return "true"
}

func structOf(t types.Type) *types.Struct {
	s, _ := t.Underlying().(*types.Struct)
	return s
}

func fieldOffset(st *types.Struct, i int) int64 {
	fs := make([]*types.Var, st.NumFields())
	for j := range fs {
		fs[j] = st.Field(j)
	}
	return sizes.Offsetsof(fs)[i]
}

func addOff(ref string, off int64) string {
	if off == 0 {
		return ref
	}
	return sApp("bvadd", ref, bv64(off))
}

// isAggregate: stored by address decomposition (struct fields, array elements)
func isAggregate(t types.Type) bool {
	k := kindOf(t)
	return k == KStruct || k == KArray
}

// elemTwoLevel: element types kept in two-level element heaps
func elemTwoLevel(t types.Type) bool {
	return isScalarKind(kindOf(t))
}

func elemFam(t types.Type) string { return "E|" + typeKey(t) }

func (g *Gen) elemHeapSort(t types.Type) Sort {
	return arrSort(SBV64, arrSort(SBV64, g.W.scalarSort(t)))
}

// fieldAddr computes &p.f
func (g *Gen) fieldAddr(p *SVal, structT types.Type, i int) *SVal {
	st := structOf(structT)
	ft := st.Field(i).Type()
	ref := addOff(p.Term, fieldOffset(st, i))
	pt := types.NewPointer(ft)
	if isAggregate(ft) {
		return &SVal{T: pt, K: KPtr, Term: ref}
	}
	return &SVal{T: pt, K: KPtr, Term: ref, Prov: &Prov{Kind: 1, Fam: fmt.Sprintf("F|%s|%d", structMemKey(structT), i), Idx: p.Term}}
}

// elemAddr computes the address of element idx (already offset-adjusted) of an
// array/slice stored at base whose element type is et.
func (g *Gen) elemAddr(base, idx string, et types.Type) *SVal {
	pt := types.NewPointer(et)
	if elemTwoLevel(et) {
		ref := sApp("bvadd", base, idx) // identity only; never dereferenced by address
		return &SVal{T: pt, K: KPtr, Term: ref, Prov: &Prov{Kind: 2, Fam: elemFam(et), Base: base, Idx: idx}}
	}
	sz := sizes.Sizeof(et)
	mul := sApp("bvmul", idx, bv64(sz))
	if sz > 1 && sz&(sz-1) != 0 {
		// element size not a power of two: the product goes through emul, which the first proof stages
		// leave uninterpreted (congruence is usually all a proof needs, and bit-blasting the multiplier
		// is what makes such queries slow); the later stages define it as bvmul
		mul = sApp("emul", idx, bv64(sz))
		g.usedEmul = true
	}
	ref := sApp("bvadd", base, mul)
	if isAggregate(et) {
		return &SVal{T: pt, K: KPtr, Term: ref}
	}
	return &SVal{T: pt, K: KPtr, Term: ref, Prov: &Prov{Kind: 1, Fam: "S|" + typeKey(et), Idx: ref}}
}

func (g *Gen) provOf(p *SVal, t types.Type) *Prov {
	if p.Prov != nil {
		if p.Prov.Kind == -1 {
			panic(unsupported("pointer with ambiguous provenance (merge of different locations)"))
		}
		return p.Prov
	}
	// unknown provenance: a standalone cell
	return &Prov{Kind: 1, Fam: "C|" + typeKey(t), Idx: p.Term}
}

// load reads a value of type t through pointer p.
func (g *Gen) load(st *State, p *SVal, t types.Type) *SVal {
	switch kindOf(t) {
	case KEmpty:
		return &SVal{T: t, K: KEmpty}
	case KStruct:
		s := structOf(t)
		v := &SVal{T: t, K: KStruct}
		for i := 0; i < s.NumFields(); i++ {
			v.Sub = append(v.Sub, g.load(st, g.fieldAddr(p, t, i), s.Field(i).Type()))
		}
		return v
	case KArray:
		a := t.Underlying().(*types.Array)
		if !elemTwoLevel(a.Elem()) {
			panic(unsupported("whole-array load of " + t.String()))
		}
		h := g.heapGet(st, elemFam(a.Elem()), g.elemHeapSort(a.Elem()))
		if p.Off != "" {
			if a.Len() > 64 {
				panic(unsupported("whole-array load at an offset (array longer than 64)"))
			}
			src := g.define("arrsrc", arrSort(SBV64, g.W.scalarSort(a.Elem())), sSel(h, p.Term))
			off := g.define("arroff", SBV64, p.Off)
			tm := fmt.Sprintf("((as const %s) %s)", g.W.scalarSort(t), g.zeroScalar(a.Elem()))
			for i := int64(0); i < a.Len(); i++ {
				tm = sStore(tm, bv64(i), sSel(src, sApp("bvadd", off, bv64(i))))
			}
			if g.inQuant == 0 {
				tm = g.define("arrval", g.W.scalarSort(t), tm)
			}
			return scalar(t, KArray, tm)
		}
		return scalar(t, KArray, sSel(h, p.Term))
	}
	pr := g.provOf(p, t)
	switch pr.Kind {
	case 2:
		h := g.heapGet(st, pr.Fam, g.elemHeapSort(t))
		g.logRead(pr.Fam, pr.Base, pr.OffT, pr.Rel, pr.Idx)
		return scalar(t, kindOf(t), sSel(sSel(h, pr.Base), pr.Idx))
	case 3:
		return g.W.buildVal(t, "", func(path string, s Sort) string {
			return g.heapGet(st, pr.Fam+"#"+path, s)
		})
	}
	return g.W.buildVal(t, "", func(path string, s Sort) string {
		h := g.heapGet(st, pr.Fam+"#"+path, arrSort(SBV64, s))
		return sSel(h, pr.Idx)
	})
}

// store writes v through pointer p.
func (g *Gen) store(st *State, p *SVal, t types.Type, v *SVal) {
	switch kindOf(t) {
	case KEmpty:
		return
	case KStruct:
		s := structOf(t)
		for i := 0; i < s.NumFields(); i++ {
			g.store(st, g.fieldAddr(p, t, i), s.Field(i).Type(), v.Sub[i])
		}
		return
	case KArray:
		a := t.Underlying().(*types.Array)
		if !elemTwoLevel(a.Elem()) {
			panic(unsupported("whole-array store of " + t.String()))
		}
		srt := g.elemHeapSort(a.Elem())
		h := g.heapGet(st, elemFam(a.Elem()), srt)
		if p.Off != "" {
			if a.Len() > 64 {
				panic(unsupported("whole-array store at an offset (array longer than 64)"))
			}
			dst := sSel(h, p.Term)
			off := g.define("arroff", SBV64, p.Off)
			val := g.define("arrval", g.W.scalarSort(t), v.Term)
			for i := int64(0); i < a.Len(); i++ {
				dst = sStore(dst, sApp("bvadd", off, bv64(i)), sSel(val, bv64(i)))
			}
			g.heapSet(st, elemFam(a.Elem()), srt, sStore(h, p.Term, dst))
			return
		}
		g.heapSet(st, elemFam(a.Elem()), srt, sStore(h, p.Term, v.Term))
		return
	}
	pr := g.provOf(p, t)
	switch pr.Kind {
	case 2:
		srt := g.elemHeapSort(t)
		h := g.heapGet(st, pr.Fam, srt)
		nh := sStore(h, pr.Base, sStore(sSel(h, pr.Base), pr.Idx, v.Term))
		g.heapSet(st, pr.Fam, srt, nh)
		// frame instances for the strings converted from byte slices so far: a byte written outside the
		// converted range leaves the string as it was
		if pr.Fam == elemFam(tByte) && g.inQuant == 0 {
			for _, r := range g.strLog {
				out := sOr(sNot(sEq(r.base, pr.Base)), sApp("bvslt", pr.Idx, r.off), sApp("bvsge", pr.Idx, sApp("bvadd", r.off, r.n)))
				g.assume("true", sImp(out, sEq(sApp("str_of_bytes", sSel(nh, r.base), r.off, r.n), sApp("str_of_bytes", sSel(h, r.base), r.off, r.n))))
			}
		}
		return
	case 3:
		ls := g.W.leaves(t)
		fv := flatten(v)
		for i, l := range ls {
			g.heapSet(st, pr.Fam+"#"+l.Path, l.Sort, fv[i])
		}
		return
	}
	ls := g.W.leaves(t)
	fv := flatten(v)
	for i, l := range ls {
		srt := arrSort(SBV64, l.Sort)
		h := g.heapGet(st, pr.Fam+"#"+l.Path, srt)
		g.heapSet(st, pr.Fam+"#"+l.Path, srt, sStore(h, pr.Idx, fv[i]))
	}
}

// zeroInit stores the zero value of t at address p (new objects).
func (g *Gen) zeroInit(st *State, p *SVal, t types.Type) {
	switch kindOf(t) {
	case KEmpty:
		return
	case KStruct:
		s := structOf(t)
		for i := 0; i < s.NumFields(); i++ {
			g.zeroInit(st, g.fieldAddr(p, t, i), s.Field(i).Type())
		}
		return
	case KArray:
		a := t.Underlying().(*types.Array)
		if elemTwoLevel(a.Elem()) {
			srt := g.elemHeapSort(a.Elem())
			h := g.heapGet(st, elemFam(a.Elem()), srt)
			g.heapSet(st, elemFam(a.Elem()), srt, sStore(h, p.Term, g.zeroScalar(t)))
			return
		}
		if a.Len() > 64 {
			panic(unsupported("zero-init of large array of composites"))
		}
		for j := int64(0); j < a.Len(); j++ {
			g.zeroInit(st, g.elemAddr(p.Term, bv64(j), a.Elem()), a.Elem())
		}
		return
	}
	g.store(st, p, t, g.zero(t))
}

// sliceElemAddr returns pointer to s[i] (i is a BV64 term, not offset-adjusted)
func (g *Gen) sliceElemAddr(s *SVal, i string) *SVal {
	et := s.T.Underlying().(*types.Slice).Elem()
	p := g.elemAddr(s.Sub[0].Term, sApp("bvadd", s.Sub[1].Term, i), et)
	if p.Prov != nil && p.Prov.Kind == 2 {
		p.Prov.Rel, p.Prov.OffT = i, s.Sub[1].Term
	}
	return p
}

// ---------------------------------------------------------------------------
// integer helpers
// ---------------------------------------------------------------------------

func (g *Gen) constVal(t types.Type, v *big.Int) *SVal {
	b, _ := intInfo(t)
	return &SVal{T: t, K: KInt, Term: bvLit(v, b), Const: v}
}

// convInt converts integer term x of type from to type to.
func convInt(x string, from, to types.Type) string {
	fb, fs := intInfo(from)
	tb, _ := intInfo(to)
	switch {
	case fb == tb:
		return x
	case fb > tb:
		return fmt.Sprintf("((_ extract %d 0) %s)", tb-1, x)
	case fs:
		return fmt.Sprintf("((_ sign_extend %d) %s)", tb-fb, x)
	default:
		return fmt.Sprintf("((_ zero_extend %d) %s)", tb-fb, x)
	}
}

func toBV64(v *SVal) string {
	if v.K != KInt {
		return v.Term
	}
	return convInt(v.Term, v.T, tInt)
}

func posOf(fn *ssa.Function, p token.Pos) token.Position {
	if fn == nil || fn.Prog == nil {
		return token.Position{}
	}
	return fn.Prog.Fset.Position(p)
}

// elemBits: width of an integer element type, 0 if not an integer
func elemBits(t types.Type) int {
	if kindOf(t) != KInt {
		return 0
	}
	b, _ := intInfo(t)
	return b
}

func truncStr(s string, n int) string {
	if len(s) > n {
		return s[:n]
	}
	return s
}

// ---------------------------------------------------------------------------
// Ghost wall clock. time.Now() returns a time not before the clock and sets the clock to it; a call
// that may block (anything executed by contract or havoc, unless its contract says nonblocking) lets an
// arbitrary amount of time pass. Computation itself takes no time in this model, so "clocknow() == t"
// says: t was read from the clock and nothing that could block has run since.
// ---------------------------------------------------------------------------

const clockSec, clockNsec = "$clock.sec", "$clock.nsec"

func (g *Gen) clockOf(st *State) (string, string) {
	return g.heapGet(st, clockSec, SBV64), g.heapGet(st, clockNsec, SBV64)
}

func timeLE(as, an, bs, bn string) string {
	return sOr(sApp("bvslt", as, bs), sAnd(sEq(as, bs), sApp("bvsle", an, bn)))
}

// advanceClock: in state post (reached from pre) an unknown amount of time has passed.
func (g *Gen) advanceClock(reach string, pre, post *State) {
	os, on := g.clockOf(pre)
	ns, nn := g.fresh("clk.sec", SBV64), g.fresh("clk.nsec", SBV64)
	g.heapSet(post, clockSec, SBV64, ns)
	g.heapSet(post, clockNsec, SBV64, nn)
	g.assume(reach, timeLE(os, on, ns, nn))
}

type strRec struct{ base, off, n string }

func (g *Gen) logStrOfBytes(base, off, n string) {
	if g.inQuant > 0 || len(g.strLog) >= 16 {
		return
	}
	for _, r := range g.strLog {
		if r.base == base && r.off == off && r.n == n {
			return
		}
	}
	g.strLog = append(g.strLog, strRec{base, off, n})
}
