package main

import (
	"fmt"
	"go/token"
	"go/types"
	"math/big"

	"golang.org/x/tools/go/ssa"
)

// ---------------------------------------------------------------------------
// Go-coded models of intrinsics and standard-library functions whose bodies
// are assembly, unsafe, or table-driven. Each is part of the trusted base and
// is listed in the evidence when used.
// ---------------------------------------------------------------------------

type modelFn func(f *Frame, args []*SVal, rt types.Type, pos token.Pos) *SVal

var models = map[string]modelFn{}

// modelMods: heaps written by a modelled function (static frame)
var modelMods = map[string]func(p *Program, ms *modSet, c *ssa.CallCommon){}

func byteElems(p *Program, ms *modSet, c *ssa.CallCommon) {
	ms.names[elemFam(tByte)] = arrSort(SBV64, arrSort(SBV64, SBV8))
}

func noMods(p *Program, ms *modSet, c *ssa.CallCommon) {}

func (f *Frame) used(name string) { f.g.note("model: %s", name) }

func nonNilErr(f *Frame, rt types.Type, hint string) *SVal {
	g := f.g
	v := g.freshVal(rt, hint)
	g.assume(f.curReach, sNot(sEq(v.Sub[0].Term, bvLit(big.NewInt(0), 32))))
	return v
}

func init() {
	// ---------------- time
	models["time.Now"] = func(f *Frame, args []*SVal, rt types.Type, pos token.Pos) *SVal {
		f.used("time.Now returns an arbitrary valid time not before the ghost clock (wall clock only, monotone)")
		g := f.g
		v := g.freshVal(rt, "now")
		g.assume(f.curReach, g.typeInv(v))
		cs, cn := g.clockOf(f.curState)
		g.assume(f.curReach, timeLE(cs, cn, v.Sub[0].Term, v.Sub[1].Term))
		f.curState = g.clone(f.curState)
		g.heapSet(f.curState, clockSec, SBV64, v.Sub[0].Term)
		g.heapSet(f.curState, clockNsec, SBV64, v.Sub[1].Term)
		return v
	}
	models["(time.Time).Unix"] = func(f *Frame, args []*SVal, rt types.Type, pos token.Pos) *SVal {
		f.used("time.Time as (sec,nsec); Unix() = sec")
		return scalar(rt, KInt, args[0].Sub[0].Term)
	}
	timeCmp := func(name string) modelFn {
		return func(f *Frame, args []*SVal, rt types.Type, pos token.Pos) *SVal {
			f.used("time.Time comparison on (sec,nsec), wall clock only")
			a, b := args[0], args[1]
			lt := sOr(sApp("bvslt", a.Sub[0].Term, b.Sub[0].Term), sAnd(sEq(a.Sub[0].Term, b.Sub[0].Term), sApp("bvslt", a.Sub[1].Term, b.Sub[1].Term)))
			gt := sOr(sApp("bvsgt", a.Sub[0].Term, b.Sub[0].Term), sAnd(sEq(a.Sub[0].Term, b.Sub[0].Term), sApp("bvsgt", a.Sub[1].Term, b.Sub[1].Term)))
			switch name {
			case "After":
				return scalar(rt, KBool, gt)
			case "Before":
				return scalar(rt, KBool, lt)
			case "Equal":
				return scalar(rt, KBool, sAnd(sEq(a.Sub[0].Term, b.Sub[0].Term), sEq(a.Sub[1].Term, b.Sub[1].Term)))
			}
			n := sEq(sApp("bvsub", a.Sub[0].Term, b.Sub[0].Term), bv64(0))
			return scalar(rt, KInt, sIte(lt, bv64(-1), sIte(sAnd(n, sEq(a.Sub[1].Term, b.Sub[1].Term)), bv64(0), bv64(1))))
		}
	}
	models["(time.Time).After"] = timeCmp("After")
	models["(time.Time).Before"] = timeCmp("Before")
	models["(time.Time).Equal"] = timeCmp("Equal")
	models["(time.Time).Compare"] = timeCmp("Compare")
	models["(time.Time).IsZero"] = func(f *Frame, args []*SVal, rt types.Type, pos token.Pos) *SVal {
		z := f.g.zero(args[0].T)
		return scalar(rt, KBool, eqVal(args[0], z))
	}
	// t.Add(d): d in nanoseconds (signed). sec' = sec + floor((nsec + d)/1e9), nsec' = (nsec+d) mod 1e9
	models["(time.Time).Add"] = func(f *Frame, args []*SVal, rt types.Type, pos token.Pos) *SVal {
		f.used("time.Time.Add on (sec,nsec), no saturation (|d| < 2^62 assumed)")
		g := f.g
		t, d := args[0], args[1]
		e9 := bv64(1000000000)
		tot := g.define("add.tot", SBV64, sApp("bvadd", t.Sub[1].Term, d.Term))
		q := g.define("add.q", SBV64, sApp("bvsdiv", tot, e9))
		r := g.define("add.r", SBV64, sApp("bvsrem", tot, e9))
		neg := sApp("bvslt", r, bv64(0))
		sec := sApp("bvadd", t.Sub[0].Term, sIte(neg, sApp("bvsub", q, bv64(1)), q))
		nsec := sIte(neg, sApp("bvadd", r, e9), r)
		return &SVal{T: rt, K: KTime, Sub: []*SVal{scalar(tInt64, KInt, sec), scalar(tInt64, KInt, nsec)}}
	}
	models["(time.Time).Sub"] = func(f *Frame, args []*SVal, rt types.Type, pos token.Pos) *SVal {
		f.used("time.Time.Sub on (sec,nsec), no saturation")
		a, b := args[0], args[1]
		d := sApp("bvadd", sApp("bvmul", sApp("bvsub", a.Sub[0].Term, b.Sub[0].Term), bv64(1000000000)), sApp("bvsub", a.Sub[1].Term, b.Sub[1].Term))
		return scalar(rt, KInt, d)
	}
	models["time.Since"] = func(f *Frame, args []*SVal, rt types.Type, pos token.Pos) *SVal {
		f.used("time.Since returns an arbitrary duration")
		return scalar(rt, KInt, f.g.fresh("since", SBV64))
	}
	models["time.Unix"] = func(f *Frame, args []*SVal, rt types.Type, pos token.Pos) *SVal {
		v := f.g.freshVal(rt, "unix")
		f.g.assume(f.curReach, f.g.typeInv(v))
		return v
	}

	// ---------------- net/netip (opaque values with uninterpreted projections)
	netipDecl := func(g *Gen) {
		if g.ufDecl["netip-axioms"] {
			return
		}
		g.ufDecl["netip-axioms"] = true
		g.W.opaque["Opq_net_netip_Addr"] = true
		g.W.opaque["Opq_net_netip_AddrPort"] = true
		g.decls = append(g.decls,
			"(declare-fun netip_ap_from (Opq_net_netip_Addr (_ BitVec 16)) Opq_net_netip_AddrPort)",
			"(declare-fun netip_ap_addr (Opq_net_netip_AddrPort) Opq_net_netip_Addr)",
			"(declare-fun netip_ap_port (Opq_net_netip_AddrPort) (_ BitVec 16))",
			"(declare-fun netip_is4 (Opq_net_netip_Addr) Bool)",
			"(declare-fun netip_is4in6 (Opq_net_netip_Addr) Bool)",
			"(declare-fun netip_is6 (Opq_net_netip_Addr) Bool)",
			"(declare-fun netip_valid (Opq_net_netip_Addr) Bool)",
			"(declare-fun netip_unmap (Opq_net_netip_Addr) Opq_net_netip_Addr)",
			"(declare-fun netip_as4 (Opq_net_netip_Addr) (Array (_ BitVec 64) (_ BitVec 8)))",
			"(declare-fun netip_as16 (Opq_net_netip_Addr) (Array (_ BitVec 64) (_ BitVec 8)))",
			"(declare-fun netip_from4 ((Array (_ BitVec 64) (_ BitVec 8))) Opq_net_netip_Addr)",
			"(declare-fun netip_from16 ((Array (_ BitVec 64) (_ BitVec 8))) Opq_net_netip_Addr)",
		)
		for _, ax := range []string{
			"(forall ((a Opq_net_netip_Addr) (p (_ BitVec 16))) (! (and (= (netip_ap_addr (netip_ap_from a p)) a) (= (netip_ap_port (netip_ap_from a p)) p)) :pattern ((netip_ap_from a p))))",
			"(forall ((x Opq_net_netip_AddrPort)) (! (= (netip_ap_from (netip_ap_addr x) (netip_ap_port x)) x) :pattern ((netip_ap_addr x))))",
			// an address is exactly one of: invalid (zero), IPv4, IPv6 (4in6 is a kind of IPv6)
			"(forall ((a Opq_net_netip_Addr)) (! (and (= (netip_valid a) (or (netip_is4 a) (netip_is6 a))) (not (and (netip_is4 a) (netip_is6 a))) (=> (netip_is4in6 a) (netip_is6 a))) :pattern ((netip_is4 a))))",
			"(forall ((a Opq_net_netip_Addr)) (! (and (= (netip_valid a) (or (netip_is4 a) (netip_is6 a))) (not (and (netip_is4 a) (netip_is6 a))) (=> (netip_is4in6 a) (netip_is6 a))) :pattern ((netip_is6 a))))",
			"(forall ((a Opq_net_netip_Addr)) (! (and (=> (netip_is4in6 a) (netip_is4 (netip_unmap a))) (=> (not (netip_is4in6 a)) (= (netip_unmap a) a))) :pattern ((netip_unmap a))))",
			"(not (netip_valid zero_Opq_net_netip_Addr))",
			"(forall ((b (Array (_ BitVec 64) (_ BitVec 8)))) (! (and (netip_is4 (netip_from4 b)) (not (netip_is4in6 (netip_from4 b)))) :pattern ((netip_from4 b))))",
			"(forall ((b (Array (_ BitVec 64) (_ BitVec 8)))) (! (netip_is6 (netip_from16 b)) :pattern ((netip_from16 b))))",
		} {
			g.addAxiom(ax)
		}
		g.declareUF("zero_Opq_net_netip_Addr", "() Opq_net_netip_Addr")
		g.quantAsm = true
	}
	// ground instances of the netip laws at a given Addr term (the quantified axioms are dropped in the
	// quantifier-free stage, so every use site states the facts it needs)
	addrFacts := func(f *Frame, a string) {
		g := f.g
		if g.inQuant > 0 || g.ufDecl["netipfacts:"+a] {
			return
		}
		g.ufDecl["netipfacts:"+a] = true
		g.addAxiom(sAnd(
			sEq(sApp("netip_valid", a), sOr(sApp("netip_is4", a), sApp("netip_is6", a))),
			sNot(sAnd(sApp("netip_is4", a), sApp("netip_is6", a))),
			sImp(sApp("netip_is4in6", a), sApp("netip_is6", a)),
			sImp(sApp("netip_is4in6", a), sApp("netip_is4", sApp("netip_unmap", a))),
			sImp(sNot(sApp("netip_is4in6", a)), sEq(sApp("netip_unmap", a), a)),
		))
	}
	apFacts := func(f *Frame, x string) {
		g := f.g
		if g.inQuant > 0 || g.ufDecl["netipapfacts:"+x] {
			return
		}
		g.ufDecl["netipapfacts:"+x] = true
		g.addAxiom(sEq(sApp("netip_ap_from", sApp("netip_ap_addr", x), sApp("netip_ap_port", x)), x))
		addrFacts(f, sApp("netip_ap_addr", x))
	}
	uf1 := func(name, uf string, resK Kind) {
		models[name] = func(f *Frame, args []*SVal, rt types.Type, pos token.Pos) *SVal {
			netipDecl(f.g)
			f.used("net/netip values are opaque; " + name + " is an uninterpreted projection with the usual algebraic laws")
			r := sApp(uf, args[0].Term)
			switch uf {
			case "netip_ap_addr", "netip_ap_port":
				apFacts(f, args[0].Term)
			case "netip_from4":
				f.g.addAxiom(sAnd(sApp("netip_is4", r), sNot(sApp("netip_is4in6", r)), sEq(sApp("netip_as4", r), args[0].Term)))
				addrFacts(f, r)
			case "netip_from16":
				f.g.addAxiom(sAnd(sApp("netip_is6", r), sEq(sApp("netip_as16", r), args[0].Term)))
				addrFacts(f, r)
			case "netip_unmap":
				addrFacts(f, args[0].Term)
				addrFacts(f, r)
			default:
				addrFacts(f, args[0].Term)
			}
			return scalar(rt, kindOf(rt), r)
		}
	}
	uf1("(net/netip.AddrPort).Addr", "netip_ap_addr", KOpaque)
	uf1("(net/netip.AddrPort).Port", "netip_ap_port", KInt)
	uf1("(net/netip.Addr).Is4", "netip_is4", KBool)
	uf1("(net/netip.Addr).Is6", "netip_is6", KBool)
	uf1("(net/netip.Addr).Is4In6", "netip_is4in6", KBool)
	uf1("(net/netip.Addr).IsValid", "netip_valid", KBool)
	uf1("(net/netip.Addr).Unmap", "netip_unmap", KOpaque)
	uf1("(net/netip.Addr).As4", "netip_as4", KArray)
	uf1("(net/netip.Addr).As16", "netip_as16", KArray)
	uf1("net/netip.AddrFrom4", "netip_from4", KOpaque)
	uf1("net/netip.AddrFrom16", "netip_from16", KOpaque)
	models["net/netip.IPv4Unspecified"] = func(f *Frame, args []*SVal, rt types.Type, pos token.Pos) *SVal {
		netipDecl(f.g)
		f.used("net/netip.IPv4Unspecified is an IPv4 address")
		f.g.declareUF("netip_v4unspec", "() Opq_net_netip_Addr")
		if !f.g.ufDecl["netip_v4unspec_ax"] {
			f.g.ufDecl["netip_v4unspec_ax"] = true
			f.g.addAxiom("(and (netip_is4 netip_v4unspec) (not (netip_is4in6 netip_v4unspec)) (not (netip_is6 netip_v4unspec)) (netip_valid netip_v4unspec))")
		}
		return scalar(rt, KOpaque, "netip_v4unspec")
	}
	models["(net/netip.AddrPort).IsValid"] = func(f *Frame, args []*SVal, rt types.Type, pos token.Pos) *SVal {
		netipDecl(f.g)
		return scalar(rt, KBool, sApp("netip_valid", sApp("netip_ap_addr", args[0].Term)))
	}
	models["net/netip.AddrPortFrom"] = func(f *Frame, args []*SVal, rt types.Type, pos token.Pos) *SVal {
		netipDecl(f.g)
		f.used("net/netip.AddrPortFrom as an uninterpreted constructor with Addr()/Port() projections")
		r := sApp("netip_ap_from", args[0].Term, args[1].Term)
		if f.g.inQuant == 0 {
			f.g.addAxiom(sAnd(sEq(sApp("netip_ap_addr", r), args[0].Term), sEq(sApp("netip_ap_port", r), args[1].Term)))
			addrFacts(f, args[0].Term)
		}
		return scalar(rt, KOpaque, r)
	}
	// As4 panics on a non-IPv4 address (zero Addr or pure IPv6)
	as4 := models["(net/netip.Addr).As4"]
	models["(net/netip.Addr).As4"] = func(f *Frame, args []*SVal, rt types.Type, pos token.Pos) *SVal {
		netipDecl(f.g)
		f.oblige("panic", sOr(sApp("netip_is4", args[0].Term), sApp("netip_is4in6", args[0].Term)), pos, "netip.Addr.As4 on an address that is not IPv4 or IPv4-mapped")
		return as4(f, args, rt, pos)
	}

	// ---------------- unique (string interning): Value(Make(s)) == s
	models["unique.Make"] = func(f *Frame, args []*SVal, rt types.Type, pos token.Pos) *SVal {
		g := f.g
		f.used("unique.Make/Handle.Value: Value(Make(s)) == s (strings only)")
		if args[0].K != KString {
			return g.freshVal(rt, "uniq")
		}
		g.usedStr = true
		g.W.opaque[string(g.W.scalarSort(rt))] = true
		g.declareUF("unique_make", "(Str) "+string(g.W.scalarSort(rt)))
		g.declareUF("unique_value", "("+string(g.W.scalarSort(rt))+") Str")
		h := sApp("unique_make", args[0].Term)
		g.assume(f.curReach, sEq(sApp("unique_value", h), args[0].Term))
		return scalar(rt, KOpaque, h)
	}
	models["(unique.Handle[T]).Value"] = func(f *Frame, args []*SVal, rt types.Type, pos token.Pos) *SVal {
		g := f.g
		if kindOf(rt) != KString {
			return g.freshVal(rt, "uniqv")
		}
		g.usedStr = true
		g.declareUF("unique_make", "(Str) "+string(g.W.scalarSort(args[0].T)))
		g.declareUF("unique_value", "("+string(g.W.scalarSort(args[0].T))+") Str")
		r := scalar(rt, KString, sApp("unique_value", args[0].Term))
		g.assume(f.curReach, g.typeInv(r))
		return r
	}

	// ---------------- math/bits
	models["math/bits.Len64"] = func(f *Frame, args []*SVal, rt types.Type, pos token.Pos) *SVal {
		f.used("math/bits.Len64: result n in [0,64] with x < 2^n and (n > 0 => x >= 2^(n-1))")
		g := f.g
		x := args[0].Term
		n := g.fresh("len64", SBV64)
		one := bv64(1)
		g.assume(f.curReach, sAnd(
			sApp("bvule", n, bv64(64)),
			sImp(sApp("bvult", n, bv64(64)), sApp("bvult", x, sApp("bvshl", one, n))),
			sImp(sNot(sEq(n, bv64(0))), sApp("bvuge", x, sApp("bvshl", one, sApp("bvsub", n, one)))),
			sEq(sEq(n, bv64(0)), sEq(x, bv64(0))),
		))
		return scalar(rt, KInt, n)
	}
	models["math/bits.Len"] = models["math/bits.Len64"]
	models["math/bits.TrailingZeros64"] = func(f *Frame, args []*SVal, rt types.Type, pos token.Pos) *SVal {
		f.used("math/bits.TrailingZeros64: n in [0,64]; x==0 <=> n==64; bit n set, bits below clear")
		g := f.g
		x := args[0].Term
		n := g.fresh("tz64", SBV64)
		one := bv64(1)
		g.assume(f.curReach, sAnd(
			sApp("bvule", n, bv64(64)),
			sEq(sEq(n, bv64(64)), sEq(x, bv64(0))),
			sImp(sApp("bvult", n, bv64(64)), sAnd(
				sNot(sEq(sApp("bvand", x, sApp("bvshl", one, n)), bv64(0))),
				sEq(sApp("bvand", x, sApp("bvsub", sApp("bvshl", one, n), one)), bv64(0)))),
		))
		return scalar(rt, KInt, n)
	}
	models["math/bits.TrailingZeros"] = models["math/bits.TrailingZeros64"]
	models["math/bits.OnesCount64"] = func(f *Frame, args []*SVal, rt types.Type, pos token.Pos) *SVal {
		f.used("math/bits.OnesCount64 is an uninterpreted function popcnt64 with: 0 <= n <= 64; n==0 <=> x==0; n==64 <=> x==^0; setting a clear bit adds one, clearing a set bit removes one (stated at use sites)")
		g := f.g
		g.declareUF("popcnt64", "((_ BitVec 64)) (_ BitVec 64)")
		x := args[0].Term
		n := sApp("popcnt64", x)
		if g.inQuant == 0 {
			g.addAxiom(sAnd(sApp("bvule", n, bv64(64)), sEq(sEq(n, bv64(0)), sEq(x, bv64(0))), sEq(sEq(n, bv64(64)), sEq(x, bv64(-1)))))
		}
		return scalar(rt, KInt, n)
	}
	models["math/bits.OnesCount"] = models["math/bits.OnesCount64"]

	// ---------------- errors / fmt
	models["errors.New"] = func(f *Frame, args []*SVal, rt types.Type, pos token.Pos) *SVal {
		f.used("errors.New returns a non-nil error")
		return nonNilErr(f, rt, "err.new")
	}
	models["fmt.Errorf"] = func(f *Frame, args []*SVal, rt types.Type, pos token.Pos) *SVal {
		f.used("fmt.Errorf returns a non-nil error")
		return nonNilErr(f, rt, "err.fmt")
	}
	models["fmt.Sprintf"] = func(f *Frame, args []*SVal, rt types.Type, pos token.Pos) *SVal {
		f.g.usedStr = true
		v := scalar(rt, KString, f.g.fresh("sprintf", SStr))
		f.g.assume(f.curReach, f.g.typeInv(v))
		return v
	}
	models["strconv.Itoa"] = models["fmt.Sprintf"]

	// ---------------- math/rand/v2
	models["math/rand/v2.IntN"] = func(f *Frame, args []*SVal, rt types.Type, pos token.Pos) *SVal {
		f.used("math/rand/v2.IntN(n): panics unless n > 0; result in [0,n)")
		g := f.g
		n := args[0].Term
		f.oblige("panic", sApp("bvsgt", n, bv64(0)), pos, "rand.IntN argument must be positive")
		r := g.fresh("intn", SBV64)
		g.assume(f.curReach, sAnd(sApp("bvsle", bv64(0), r), sApp("bvslt", r, n)))
		return scalar(rt, KInt, r)
	}
	models["math/rand/v2.Uint64"] = func(f *Frame, args []*SVal, rt types.Type, pos token.Pos) *SVal {
		return scalar(rt, KInt, f.g.fresh("rand64", SBV64))
	}

	// ---------------- bytes
	models["bytes.Equal"] = func(f *Frame, args []*SVal, rt types.Type, pos token.Pos) *SVal {
		f.used("bytes.Equal: true iff lengths equal and all bytes equal")
		g := f.g
		r := mkBool(g.fresh("bytes.eq", SBool))
		vars := map[string]*SVal{"$a": args[0], "$b": args[1], "$r": r}
		g.specAssume(f.curReach, f.curState, vars, "$r ==> $a == $b")
		g.specAssume(f.curReach, f.curState, vars, "$a == $b ==> $r")
		return scalar(rt, KBool, r.Term)
	}

	// ---------------- crypto/subtle
	models["crypto/subtle.XORBytes"] = func(f *Frame, args []*SVal, rt types.Type, pos token.Pos) *SVal {
		f.used("crypto/subtle.XORBytes: panics if dst shorter than min(len(x),len(y)); writes dst[:n] only")
		g := f.g
		dst, x, y := args[0], args[1], args[2]
		n := g.define("xor.n", SBV64, sIte(sApp("bvsle", x.Sub[2].Term, y.Sub[2].Term), x.Sub[2].Term, y.Sub[2].Term))
		f.oblige("panic", sApp("bvsge", dst.Sub[2].Term, n), pos, "subtle.XORBytes: dst too short")
		f.checkElemWrite(elemFam(tByte), dst.Sub[0].Term, dst.Sub[1].Term, sApp("bvadd", dst.Sub[1].Term, n), pos)
		g.havocItem(f.curState, f.curReach, &modItem{kind: "elemRange", fam: elemFam(tByte), base: dst.Sub[0].Term, lo: dst.Sub[1].Term, hi: sApp("bvadd", dst.Sub[1].Term, n), t: tByte})
		return mkInt(n)
	}
	modelMods["crypto/subtle.XORBytes"] = byteElems
	models["crypto/rand.Read"] = func(f *Frame, args []*SVal, rt types.Type, pos token.Pos) *SVal {
		f.used("crypto/rand.Read fills b with arbitrary bytes, returns (len(b), nil)")
		g := f.g
		b := args[0]
		hi := sApp("bvadd", b.Sub[1].Term, b.Sub[2].Term)
		f.checkElemWrite(elemFam(tByte), b.Sub[0].Term, b.Sub[1].Term, hi, pos)
		g.havocItem(f.curState, f.curReach, &modItem{kind: "elemRange", fam: elemFam(tByte), base: b.Sub[0].Term, lo: b.Sub[1].Term, hi: hi, t: tByte})
		tup := rt.(*types.Tuple)
		return &SVal{T: rt, K: KTuple, Sub: []*SVal{mkInt(b.Sub[2].Term), g.zero(tup.At(1).Type())}}
	}
	modelMods["crypto/rand.Read"] = byteElems

	// ---------------- sync: locks are no-ops for sequential reasoning
	for _, n := range []string{"(*sync.Mutex).Lock", "(*sync.Mutex).Unlock", "(*sync.RWMutex).Lock", "(*sync.RWMutex).Unlock", "(*sync.RWMutex).RLock", "(*sync.RWMutex).RUnlock",
		"(*sync.WaitGroup).Add", "(*sync.WaitGroup).Done", "(*sync.WaitGroup).Wait", "(*sync.WaitGroup).Go"} {
		name := n
		models[name] = func(f *Frame, args []*SVal, rt types.Type, pos token.Pos) *SVal {
			f.used(name + " is a no-op (sequential reasoning; mutual exclusion is not proved)")
			return nil
		}
		modelMods[name] = noMods
	}
	for _, n := range []string{"(*sync.Mutex).TryLock", "(*sync.RWMutex).TryLock", "(*sync.RWMutex).TryRLock"} {
		name := n
		models[name] = func(f *Frame, args []*SVal, rt types.Type, pos token.Pos) *SVal {
			f.used(name + " returns an arbitrary boolean")
			return scalar(rt, KBool, f.g.fresh("trylock", SBool))
		}
		modelMods[name] = noMods
	}

	// ---------------- sync/atomic (typed): the value is the struct's own field "v" (so fresh objects start at zero)
	atomicNames := []string{"Uint64", "Int64", "Uint32", "Int32", "Uintptr", "Bool"}
	for _, an := range atomicNames {
		an := an
		vfield := func(f *Frame, recv *SVal) (*SVal, types.Type) {
			st := recv.T.Underlying().(*types.Pointer).Elem()
			s := structOf(st)
			for i := 0; i < s.NumFields(); i++ {
				if s.Field(i).Name() == "v" {
					return f.g.fieldAddr(recv, st, i), s.Field(i).Type()
				}
			}
			panic(unsupported("sync/atomic." + an + " has no field v"))
		}
		mods := func(p *Program, ms *modSet, c *ssa.CallCommon) {
			if len(c.Args) == 0 {
				return
			}
			pt, ok := c.Args[0].Type().Underlying().(*types.Pointer)
			if !ok {
				return
			}
			if s := structOf(pt.Elem()); s != nil {
				for i := 0; i < s.NumFields(); i++ {
					if s.Field(i).Name() == "v" {
						p.addTypeNames(ms, s.Field(i).Type(), fmt.Sprintf("F|%s|%d", structMemKey(pt.Elem()), i), 0)
					}
				}
			}
		}
		// the stored representation of Bool is uint32; expose it as the method's value type
		toVal := func(f *Frame, raw *SVal, rt types.Type) *SVal {
			if kindOf(rt) == KBool && raw.K == KInt {
				return scalar(rt, KBool, sNot(sEq(raw.Term, bvLit(big.NewInt(0), 32))))
			}
			return f.coerce(raw, rt)
		}
		fromVal := func(f *Frame, v *SVal, ft types.Type) *SVal {
			if v.K == KBool && kindOf(ft) == KInt {
				return scalar(ft, KInt, sIte(v.Term, bvLit(big.NewInt(1), 32), bvLit(big.NewInt(0), 32)))
			}
			return f.coerce(v, ft)
		}
		note := "sync/atomic typed values are the struct's field v read/written sequentially (linearizable operations; interference by other goroutines not modelled)"
		pre := "(*sync/atomic." + an + ")."
		models[pre+"Load"] = func(f *Frame, args []*SVal, rt types.Type, pos token.Pos) *SVal {
			f.used(note)
			fa, ft := vfield(f, args[0])
			return toVal(f, f.g.load(f.curState, fa, ft), rt)
		}
		modelMods[pre+"Load"] = noMods
		models[pre+"Store"] = func(f *Frame, args []*SVal, rt types.Type, pos token.Pos) *SVal {
			f.used(note)
			fa, ft := vfield(f, args[0])
			f.checkStore(fa, ft, pos)
			f.g.store(f.curState, fa, ft, fromVal(f, args[1], ft))
			return nil
		}
		modelMods[pre+"Store"] = mods
		models[pre+"Swap"] = func(f *Frame, args []*SVal, rt types.Type, pos token.Pos) *SVal {
			f.used(note)
			fa, ft := vfield(f, args[0])
			old := f.g.nameVal("swap.old", f.g.load(f.curState, fa, ft))
			f.checkStore(fa, ft, pos)
			f.g.store(f.curState, fa, ft, fromVal(f, args[1], ft))
			return toVal(f, old, rt)
		}
		modelMods[pre+"Swap"] = mods
		if an != "Bool" {
			models[pre+"Add"] = func(f *Frame, args []*SVal, rt types.Type, pos token.Pos) *SVal {
				f.used(note)
				fa, ft := vfield(f, args[0])
				cur := f.g.load(f.curState, fa, ft)
				nv := f.g.nameVal("add.new", scalar(ft, KInt, sApp("bvadd", cur.Term, f.coerce(args[1], ft).Term)))
				f.checkStore(fa, ft, pos)
				f.g.store(f.curState, fa, ft, nv)
				return f.coerce(nv, rt)
			}
			modelMods[pre+"Add"] = mods
		}
		models[pre+"CompareAndSwap"] = func(f *Frame, args []*SVal, rt types.Type, pos token.Pos) *SVal {
			f.used(note)
			fa, ft := vfield(f, args[0])
			cur := f.g.load(f.curState, fa, ft)
			ok := f.g.define("cas.ok", SBool, sEq(cur.Term, fromVal(f, args[1], ft).Term))
			f.checkStore(fa, ft, pos)
			f.g.store(f.curState, fa, ft, scalar(ft, cur.K, sIte(ok, fromVal(f, args[2], ft).Term, cur.Term)))
			return scalar(rt, KBool, ok)
		}
		modelMods[pre+"CompareAndSwap"] = mods
	}
}
