package main

import (
	"bufio"
	"fmt"
	"os"
	"path/filepath"
	"regexp"
	"strconv"
	"strings"
)

// ---------------------------------------------------------------------------
// Contract files: lines starting with //@ in comment-only Go files (in /repo,
// behind the build tag) and in /verif/specs/*.gvc (trusted external specs).
// ---------------------------------------------------------------------------

type Clause struct {
	Text string
	E    Expr
	File string
	Line int
	Name string // optional label: "ensures[label] ..."
	// ObjInv: an object-invariant clause ("objinv e"): assumed on entry and proved at every return when the
	// method itself is verified; at call sites it is assumed after the call but not demanded before it (the
	// invariant speaks about unexported state that only the declaring package's verified code can write)
	ObjInv bool
}

type LoopSpec struct {
	Exits       []*Clause // asserted (then assumed) at every block entered on leaving the loop
	Breaks      []*Clause // the same, but only where leaving the loop continues an enclosing loop (a break, not a return)
	Invariants  []*Clause
	Modifies    []*Clause
	HasModifies bool
}

type Param struct {
	Name string
	Type *TypeExpr
}

type Contract struct {
	Key         string // fully qualified ssa function name
	PkgPath     string
	File        string
	Line        int
	Requires    []*Clause
	Ensures     []*Clause
	Modifies    []*Clause
	HasModifies bool
	Loops       map[int]*LoopSpec
	Trusted     bool // body not verified: contract assumed (externals, unsafe code)
	Inline      bool // callers inline the body even though a contract exists
	NoInline    bool // never inline: callers use contract or havoc
	NonBlocking bool // the function cannot block (time does not pass across a call to it); checked for verified functions
	Immutable   []string // struct types whose objects are never written once they exist at the start of the current loop iteration
	Dispatch    bool // interface method: resolved per call by case split over the module's implementing types
	ParamNames  []string
	Asserts     []*Clause // (unused)
	Regions     []*Region
	Callsites   []*Callsite
	DynCalls    [][]*Clause // dyncall f1, f2: a call through a function value of their signature targets one of them (checked)
	Reveals     []string
	MayPanic    bool // function is allowed to panic (callers get no guarantee either)
}

// Callsite: an assertion that must hold immediately before every call of a named callee inside the function.
type Callsite struct {
	Callee string
	C      *Clause
	// Set != "": a ghost assignment "$Set := C" made just before the call, not an assertion
	Set string
}

// Region: obligations over a sub-graph of a function that is otherwise outside the subset.
type Region struct {
	Name     string
	From     string // anchor: callee name substring of the entry call ("" = function entry)
	To       string // anchor: callee name substring of the exit call ("" = returns)
	Requires []*Clause
	Ensures  []*Clause
}

type PureFn struct {
	Name    string
	PkgPath string
	Params  []Param
	Result  *TypeExpr
	Body    Expr
	Text    string
	File    string
	Line    int
	// Uninterpreted: declared with no body
	Uninterp bool
	// Opaque: has a body, but uses see only an uninterpreted application (over the arguments and the
	// heaps the body reads) unless the enclosing contract says "reveal <name>".
	Opaque bool
}

type Lemma struct {
	Reveals  []string
	Name     string
	PkgPath  string
	Params   []Param
	Requires []*Clause
	Ensures  []*Clause
	File     string
	Line     int
}

type GlobalFact struct {
	PkgPath string
	C       *Clause
}

type Specs struct {
	Contracts map[string]*Contract
	Pures     map[string]*PureFn // key: pkgpath + "." + name, also bare name if unique
	Lemmas    map[string]*Lemma
	Globals   []*GlobalFact
	Ghosts    map[string]string // ghost state variables: name -> "bool" | "int"
	Files     []string
	Errors    []string
}

func newSpecs() *Specs {
	return &Specs{Contracts: map[string]*Contract{}, Pures: map[string]*PureFn{}, Lemmas: map[string]*Lemma{}}
}

var ghostSetRe = regexp.MustCompile(`^\$(\w+)\s*:=\s*(.+)$`)

var keywordRe = regexp.MustCompile(`^(package|func|requires|ensures|objinv|modifies|loop|trusted|inline|noinline|dispatch|dyncall|nonblocking|immutable|ghost|maypanic|pure|uninterp|lemma|global|region|from|to|params|callsite|opaque|reveal)\b`)

// expandKey turns "(*T).M" / "(T).M" / "F" into the ssa qualified name for pkgPath.
// Keys that already contain a '/' or a '.' before the first '(' are taken as written.
func expandKey(pkgPath, k string) string {
	k = strings.TrimSpace(k)
	if strings.HasPrefix(k, "(") {
		// (*T).M or (T).M or (*pkg/path.T).M
		end := strings.Index(k, ")")
		recv := k[1:end]
		rest := k[end+1:]
		star := ""
		if strings.HasPrefix(recv, "*") {
			star = "*"
			recv = recv[1:]
		}
		if !strings.Contains(recv, ".") {
			recv = pkgPath + "." + recv
		}
		return "(" + star + recv + ")" + rest
	}
	if strings.Contains(k, ".") {
		return k
	}
	return pkgPath + "." + k
}

func parseParams(s string) ([]Param, error) {
	s = strings.TrimSpace(s)
	if s == "" {
		return nil, nil
	}
	var out []Param
	// split on commas at depth 0
	depth := 0
	start := 0
	var parts []string
	for i, c := range s {
		switch c {
		case '(', '[':
			depth++
		case ')', ']':
			depth--
		case ',':
			if depth == 0 {
				parts = append(parts, s[start:i])
				start = i + 1
			}
		}
	}
	parts = append(parts, s[start:])
	for _, p := range parts {
		p = strings.TrimSpace(p)
		sp := strings.IndexAny(p, " \t")
		if sp < 0 {
			return nil, fmt.Errorf("parameter %q needs a type", p)
		}
		toks, err := lex(p[sp:])
		if err != nil {
			return nil, err
		}
		ps := &parser{toks: toks}
		var te *TypeExpr
		func() {
			defer func() {
				if r := recover(); r != nil {
					err = fmt.Errorf("%v", r)
				}
			}()
			te = ps.typeExpr()
		}()
		if err != nil {
			return nil, err
		}
		out = append(out, Param{p[:sp], te})
	}
	return out, nil
}

func (sp *Specs) errf(file string, line int, format string, a ...any) {
	sp.Errors = append(sp.Errors, fmt.Sprintf("%s:%d: %s", file, line, fmt.Sprintf(format, a...)))
}

// ParseFile reads one contract file.
func (sp *Specs) ParseFile(path string, defaultPkg string) {
	f, err := os.Open(path)
	if err != nil {
		sp.errf(path, 0, "%v", err)
		return
	}
	defer f.Close()
	sp.Files = append(sp.Files, path)
	type rawClause struct {
		text string
		line int
	}
	var raws []rawClause
	sc := bufio.NewScanner(f)
	sc.Buffer(make([]byte, 1<<20), 1<<20)
	ln := 0
	for sc.Scan() {
		ln++
		line := strings.TrimSpace(sc.Text())
		if !strings.HasPrefix(line, "//@") {
			continue
		}
		body := strings.TrimSpace(line[3:])
		if body == "" || strings.HasPrefix(body, "#") {
			continue
		}
		// strip trailing comments introduced by " // "
		if i := strings.Index(body, " // "); i >= 0 {
			body = strings.TrimSpace(body[:i])
		}
		if keywordRe.MatchString(body) || len(raws) == 0 {
			raws = append(raws, rawClause{body, ln})
		} else {
			raws[len(raws)-1].text += " " + body
		}
	}
	pkg := defaultPkg
	var cur *Contract
	var curLemma *Lemma
	var curRegion *Region
	mkClause := func(text string, line int) *Clause {
		name := ""
		if strings.HasPrefix(text, "[") {
			if i := strings.Index(text, "]"); i > 0 {
				name = text[1:i]
				text = strings.TrimSpace(text[i+1:])
			}
		}
		e, err := parseExpr(text)
		if err != nil {
			sp.errf(path, line, "%v", err)
			return nil
		}
		return &Clause{Text: text, E: e, File: path, Line: line, Name: name}
	}
	for _, rc := range raws {
		kw := keywordRe.FindString(rc.text)
		rest := strings.TrimSpace(rc.text[len(kw):])
		switch kw {
		case "package":
			pkg = rest
			cur, curLemma, curRegion = nil, nil, nil
		case "func":
			curLemma, curRegion = nil, nil
			key := rest
			var pnames []string
			// optional parameter-name list for externals: func bytes.Equal(a, b)
			if i := strings.LastIndex(rest, "("); i > 0 && strings.HasSuffix(rest, ")") && !strings.HasPrefix(rest[i:], "(*") && strings.Count(rest[:i], "(") == strings.Count(rest[:i], ")") {
				key = rest[:i]
				for _, p := range strings.Split(rest[i+1:len(rest)-1], ",") {
					if p = strings.TrimSpace(p); p != "" {
						pnames = append(pnames, p)
					}
				}
			}
			k := expandKey(pkg, key)
			if _, dup := sp.Contracts[k]; dup {
				sp.errf(path, rc.line, "duplicate contract for %s", k)
			}
			cur = &Contract{Key: k, PkgPath: pkg, File: path, Line: rc.line, Loops: map[int]*LoopSpec{}, ParamNames: pnames}
			sp.Contracts[k] = cur
		case "objinv":
			if cur == nil {
				sp.errf(path, rc.line, "objinv outside func")
				continue
			}
			if c := mkClause(rest, rc.line); c != nil {
				c.ObjInv = true
				cur.Requires = append(cur.Requires, c)
				c2 := *c
				cur.Ensures = append(cur.Ensures, &c2)
			}
		case "requires", "ensures":
			c := mkClause(rest, rc.line)
			if c == nil {
				continue
			}
			switch {
			case curRegion != nil:
				if kw == "requires" {
					curRegion.Requires = append(curRegion.Requires, c)
				} else {
					curRegion.Ensures = append(curRegion.Ensures, c)
				}
			case curLemma != nil:
				if kw == "requires" {
					curLemma.Requires = append(curLemma.Requires, c)
				} else {
					curLemma.Ensures = append(curLemma.Ensures, c)
				}
			case cur != nil:
				if kw == "requires" {
					cur.Requires = append(cur.Requires, c)
				} else {
					cur.Ensures = append(cur.Ensures, c)
				}
			default:
				sp.errf(path, rc.line, "%s outside func/lemma", kw)
			}
		case "modifies":
			if cur == nil {
				sp.errf(path, rc.line, "modifies outside func")
				continue
			}
			cur.HasModifies = true
			if rest != "" && rest != "nothing" {
				for _, item := range splitTop(rest) {
					if c := mkClause(item, rc.line); c != nil {
						cur.Modifies = append(cur.Modifies, c)
					}
				}
			}
		case "loop":
			if cur == nil {
				sp.errf(path, rc.line, "loop outside func")
				continue
			}
			f := strings.Fields(rest)
			if len(f) < 2 {
				sp.errf(path, rc.line, "bad loop clause")
				continue
			}
			n, err := strconv.Atoi(strings.TrimSuffix(f[0], ":"))
			if err != nil {
				sp.errf(path, rc.line, "bad loop ordinal %q", f[0])
				continue
			}
			ls := cur.Loops[n]
			if ls == nil {
				ls = &LoopSpec{}
				cur.Loops[n] = ls
			}
			body := strings.TrimSpace(rest[strings.Index(rest, f[1])+len(f[1]):])
			switch f[1] {
			case "invariant":
				if c := mkClause(body, rc.line); c != nil {
					ls.Invariants = append(ls.Invariants, c)
				}
			case "exit":
				if c := mkClause(body, rc.line); c != nil {
					ls.Exits = append(ls.Exits, c)
				}
			case "break":
				if c := mkClause(body, rc.line); c != nil {
					ls.Breaks = append(ls.Breaks, c)
				}
			case "modifies":
				ls.HasModifies = true
				if body != "" && body != "nothing" {
					for _, item := range splitTop(body) {
						if c := mkClause(item, rc.line); c != nil {
							ls.Modifies = append(ls.Modifies, c)
						}
					}
				}
			default:
				sp.errf(path, rc.line, "bad loop clause kind %q", f[1])
			}
		case "dyncall":
			if cur == nil {
				sp.errf(path, rc.line, "dyncall outside func")
				continue
			}
			var set []*Clause
			for _, nm := range strings.Split(rest, ",") {
				if c := mkClause(strings.TrimSpace(nm), rc.line); c != nil {
					set = append(set, c)
				}
			}
			if len(set) > 0 {
				cur.DynCalls = append(cur.DynCalls, set)
			}
		case "callsite":
			if cur == nil {
				sp.errf(path, rc.line, "callsite outside func")
				continue
			}
			i := strings.Index(rest, ":")
			if i < 0 {
				sp.errf(path, rc.line, "callsite needs 'callee: expr'")
				continue
			}
			body := strings.TrimSpace(rest[i+1:])
			if m := ghostSetRe.FindStringSubmatch(body); m != nil {
				// ghost code: "callsite f: $g := expr" assigns the ghost variable just before each call of f
				if c := mkClause(strings.TrimSpace(m[2]), rc.line); c != nil {
					cur.Callsites = append(cur.Callsites, &Callsite{Callee: strings.TrimSpace(rest[:i]), C: c, Set: m[1]})
				}
				continue
			}
			if c := mkClause(body, rc.line); c != nil {
				cur.Callsites = append(cur.Callsites, &Callsite{Callee: strings.TrimSpace(rest[:i]), C: c})
			}
		case "trusted":
			if cur != nil {
				cur.Trusted = true
			}
		case "inline":
			if cur != nil {
				cur.Inline = true
			}
		case "noinline":
			if cur != nil {
				cur.NoInline = true
			}
		case "dispatch":
			if cur != nil {
				cur.Dispatch = true
			}
		case "nonblocking":
			if cur != nil {
				cur.NonBlocking = true
			}
		case "immutable":
			if cur != nil {
				for _, n := range strings.Split(rest, ",") {
					if n = strings.TrimSpace(n); n != "" {
						cur.Immutable = append(cur.Immutable, n)
					}
				}
			}
		case "maypanic":
			if cur != nil {
				cur.MayPanic = true
			}
		case "params":
			if cur != nil {
				for _, p := range strings.Split(rest, ",") {
					if p = strings.TrimSpace(p); p != "" {
						cur.ParamNames = append(cur.ParamNames, p)
					}
				}
			}
		case "region":
			if cur == nil {
				sp.errf(path, rc.line, "region outside func")
				continue
			}
			curRegion = &Region{Name: rest}
			cur.Regions = append(cur.Regions, curRegion)
		case "from":
			if curRegion != nil {
				curRegion.From = rest
			}
		case "to":
			if curRegion != nil {
				curRegion.To = rest
			}
		case "reveal":
			if cur != nil {
				for _, n := range splitTop(rest) {
					cur.Reveals = append(cur.Reveals, n)
				}
			} else if curLemma != nil {
				curLemma.Reveals = append(curLemma.Reveals, splitTop(rest)...)
			}
		case "pure", "uninterp", "opaque":
			cur, curLemma, curRegion = nil, nil, nil
			// pure name(params) T = expr      |  uninterp name(params) T
			op := strings.Index(rest, "(")
			cl := matchParen(rest, op)
			if op < 0 || cl < 0 {
				sp.errf(path, rc.line, "bad pure declaration")
				continue
			}
			name := strings.TrimSpace(rest[:op])
			params, err := parseParams(rest[op+1 : cl])
			if err != nil {
				sp.errf(path, rc.line, "%v", err)
				continue
			}
			after := strings.TrimSpace(rest[cl+1:])
			pf := &PureFn{Name: name, PkgPath: pkg, Params: params, File: path, Line: rc.line, Text: rest}
			tyText := after
			if kw == "opaque" {
				pf.Opaque = true
			}
			if kw == "pure" || kw == "opaque" {
				eq := strings.Index(after, "=")
				if eq < 0 {
					sp.errf(path, rc.line, "pure function needs '= expr'")
					continue
				}
				tyText = strings.TrimSpace(after[:eq])
				body, err := parseExpr(after[eq+1:])
				if err != nil {
					sp.errf(path, rc.line, "%v", err)
					continue
				}
				pf.Body = body
			} else {
				pf.Uninterp = true
			}
			toks, err := lex(tyText)
			if err != nil {
				sp.errf(path, rc.line, "%v", err)
				continue
			}
			func() {
				defer func() {
					if r := recover(); r != nil {
						sp.errf(path, rc.line, "bad result type: %v", r)
					}
				}()
				pf.Result = (&parser{toks: toks}).typeExpr()
			}()
			sp.Pures[pkg+"."+name] = pf
		case "lemma":
			cur, curRegion = nil, nil
			op := strings.Index(rest, "(")
			cl := matchParen(rest, op)
			if op < 0 || cl < 0 {
				sp.errf(path, rc.line, "bad lemma declaration")
				continue
			}
			params, err := parseParams(rest[op+1 : cl])
			if err != nil {
				sp.errf(path, rc.line, "%v", err)
				continue
			}
			curLemma = &Lemma{Name: strings.TrimSpace(rest[:op]), PkgPath: pkg, Params: params, File: path, Line: rc.line}
			sp.Lemmas[curLemma.Name] = curLemma
		case "ghost":
			// ghost <name> bool|int : a ghost state variable, written $name in clauses
			f := strings.Fields(rest)
			if len(f) != 2 || (f[1] != "bool" && f[1] != "int") {
				sp.errf(path, rc.line, "ghost needs '<name> bool|int'")
				continue
			}
			if sp.Ghosts == nil {
				sp.Ghosts = map[string]string{}
			}
			sp.Ghosts[f[0]] = f[1]
		case "global":
			if c := mkClause(rest, rc.line); c != nil {
				sp.Globals = append(sp.Globals, &GlobalFact{pkg, c})
			}
		default:
			sp.errf(path, rc.line, "cannot parse clause %q", rc.text)
		}
	}
}

func matchParen(s string, open int) int {
	if open < 0 {
		return -1
	}
	d := 0
	for i := open; i < len(s); i++ {
		switch s[i] {
		case '(':
			d++
		case ')':
			d--
			if d == 0 {
				return i
			}
		}
	}
	return -1
}

func splitTop(s string) []string {
	var parts []string
	depth, start := 0, 0
	for i, c := range s {
		switch c {
		case '(', '[':
			depth++
		case ')', ']':
			depth--
		case ',':
			if depth == 0 {
				parts = append(parts, strings.TrimSpace(s[start:i]))
				start = i + 1
			}
		}
	}
	parts = append(parts, strings.TrimSpace(s[start:]))
	return parts
}

// LoadSpecs reads every zz_verif_contracts.go under repo and every .gvc under specsDir.
func LoadSpecs(repo, modPath, specsDir string) *Specs {
	sp := newSpecs()
	filepath.Walk(repo, func(p string, info os.FileInfo, err error) error {
		if err != nil {
			return nil
		}
		if info.IsDir() && (info.Name() == ".git" || info.Name() == "docs") {
			return filepath.SkipDir
		}
		if !info.IsDir() && strings.HasPrefix(info.Name(), "zz_verif_contracts") && strings.HasSuffix(info.Name(), ".go") {
			rel, _ := filepath.Rel(repo, filepath.Dir(p))
			pkg := modPath
			if rel != "." {
				pkg = modPath + "/" + filepath.ToSlash(rel)
			}
			sp.ParseFile(p, pkg)
		}
		return nil
	})
	if specsDir != "" {
		ms, _ := filepath.Glob(filepath.Join(specsDir, "*.gvc"))
		for _, m := range ms {
			sp.ParseFile(m, "")
		}
	}
	return sp
}
