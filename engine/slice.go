package main

import (
	"strings"
)

// ---------------------------------------------------------------------------
// Cone-of-influence slicing of a query: keep only the assumptions that share
// (transitively) a declared constant with the goal. Dropping assumptions can
// only make a proof harder, never unsound; a "sat" answer of a sliced query is
// therefore not trusted (the unsliced query is run next).
// ---------------------------------------------------------------------------

// smtTokens returns the symbol tokens of an SMT term (|quoted| symbols kept whole).
func smtTokens(t string, f func(tok string)) {
	i := 0
	for i < len(t) {
		c := t[i]
		switch {
		case c == '|':
			j := i + 1
			for j < len(t) && t[j] != '|' {
				j++
			}
			if j < len(t) {
				j++
			}
			f(t[i:j])
			i = j
		case c == '(' || c == ')' || c == ' ' || c == '\n' || c == '\t':
			i++
		default:
			j := i
			for j < len(t) && t[j] != '(' && t[j] != ')' && t[j] != ' ' && t[j] != '\n' && t[j] != '\t' && t[j] != '|' {
				j++
			}
			f(t[i:j])
			i = j
		}
	}
}

type slicer struct {
	consts map[string]bool     // declared constants (arity 0)
	defs   map[string][]string // defined name -> constants it depends on (transitively)
}

func (g *Gen) newSlicer() *slicer {
	sl := &slicer{consts: map[string]bool{}, defs: map[string][]string{}}
	for _, d := range g.decls {
		switch {
		case strings.HasPrefix(d, "(declare-const "):
			rest := d[len("(declare-const "):]
			name := firstToken(rest)
			sl.consts[name] = true
		case strings.HasPrefix(d, "(define-fun "):
			rest := d[len("(define-fun "):]
			name := firstToken(rest)
			// body: after "() Sort "
			deps := map[string]bool{}
			smtTokens(rest[len(name):], func(tok string) {
				if sl.consts[tok] {
					deps[tok] = true
				} else if ds, ok := sl.defs[tok]; ok {
					for _, x := range ds {
						deps[x] = true
					}
				}
			})
			var list []string
			for k := range deps {
				list = append(list, k)
			}
			sl.defs[name] = list
		}
	}
	return sl
}

func firstToken(s string) string {
	s = strings.TrimLeft(s, " ")
	if strings.HasPrefix(s, "|") {
		if j := strings.Index(s[1:], "|"); j >= 0 {
			return s[:j+2]
		}
	}
	if j := strings.IndexAny(s, " ()"); j >= 0 {
		return s[:j]
	}
	return s
}

func (sl *slicer) constsOf(term string) map[string]bool {
	out := map[string]bool{}
	smtTokens(term, func(tok string) {
		if sl.consts[tok] {
			out[tok] = true
		} else if ds, ok := sl.defs[tok]; ok {
			for _, x := range ds {
				out[x] = true
			}
		}
	})
	return out
}

// relevant returns, for each assumption text, whether it is in the cone of influence of the goal terms.
func (sl *slicer) relevant(goals []string, asms []string) []bool {
	rel := map[string]bool{}
	for _, gt := range goals {
		for k := range sl.constsOf(gt) {
			rel[k] = true
		}
	}
	sets := make([]map[string]bool, len(asms))
	for i, a := range asms {
		sets[i] = sl.constsOf(a)
	}
	keep := make([]bool, len(asms))
	changed := true
	for changed {
		changed = false
		for i := range asms {
			if keep[i] {
				continue
			}
			if len(sets[i]) == 0 {
				continue // closed formulas (axioms) are handled by the caller
			}
			hit := false
			for k := range sets[i] {
				if rel[k] {
					hit = true
					break
				}
			}
			if hit {
				keep[i] = true
				changed = true
				for k := range sets[i] {
					rel[k] = true
				}
			}
		}
	}
	return keep
}
