package main

import (
	"encoding/json"
	"fmt"
	"go/types"
	"math/big"
	"os"
	"os/exec"
	"path/filepath"
	"strconv"
	"strings"
	"time"

	"golang.org/x/tools/go/ssa"
)

// ---------------------------------------------------------------------------
// Replay: turn a solver model into a Go test that runs the REAL function on
// the model's inputs (go test -overlay; nothing is written into /repo), then
// decide whether the real execution confirms the failed obligation:
//   - panic-kind obligations: confirmed iff the real call panics;
//   - ensures obligations: the observed results and post-state are pinned onto
//     the engine's own terms together with the inputs; if that is still
//     satisfiable with the negated clause, the real outputs violate the clause.
// ---------------------------------------------------------------------------

type ReplayResult struct {
	File      string
	Confirmed bool
}

type replayDoc struct {
	Property   string            `json:"property,omitempty"`
	Obligation string            `json:"obligation"`
	Kind       string            `json:"kind"`
	Clause     string            `json:"clause,omitempty"`
	Desc       string            `json:"desc,omitempty"`
	Pos        string            `json:"pos,omitempty"`
	Unit       string            `json:"unit"`
	Function   string            `json:"function"`
	Outcome    string            `json:"outcome"` // confirmed | not-confirmed | no-failing-input-found | replay-unsupported
	Solver     string            `json:"solver"`
	SolverOut  string            `json:"solver_output,omitempty"`
	SMTFile    string            `json:"smt_file,omitempty"`
	Inputs     map[string]string `json:"inputs,omitempty"`
	TestFile   string            `json:"test_file,omitempty"`
	TestCmd    string            `json:"test_cmd,omitempty"`
	Transcript string            `json:"transcript,omitempty"`
	Notes      []string          `json:"notes,omitempty"`
}

type modelSession struct {
	s     *session
	cache map[string]string
	err   error
}

func (m *modelSession) value(term string) string {
	if v, ok := m.cache[term]; ok {
		return v
	}
	m.s.send("(get-value (" + term + "))")
	out, err := m.s.readSexp(20 * time.Second)
	if err != nil {
		m.err = err
		return ""
	}
	// ((term value))
	out = strings.TrimSpace(out)
	out = strings.TrimSuffix(strings.TrimPrefix(out, "(("), "))")
	// value is the last token/sexp
	v := lastSexp(out)
	m.cache[term] = v
	return v
}

func lastSexp(s string) string {
	s = strings.TrimSpace(s)
	if strings.HasSuffix(s, ")") {
		d := 0
		for i := len(s) - 1; i >= 0; i-- {
			if s[i] == ')' {
				d++
			} else if s[i] == '(' {
				d--
				if d == 0 {
					return s[i:]
				}
			}
		}
	}
	if i := strings.LastIndexAny(s, " \n\t"); i >= 0 {
		return s[i+1:]
	}
	return s
}

func (m *modelSession) bv(term string) (*big.Int, bool) {
	v := m.value(term)
	n := new(big.Int)
	switch {
	case strings.HasPrefix(v, "#x"):
		n.SetString(v[2:], 16)
		return n, true
	case strings.HasPrefix(v, "#b"):
		n.SetString(v[2:], 2)
		return n, true
	case strings.HasPrefix(v, "(_ bv"):
		f := strings.Fields(v)
		n.SetString(strings.TrimPrefix(f[1], "bv"), 10)
		return n, true
	}
	return nil, false
}

func (m *modelSession) boolean(term string) bool { return m.value(term) == "true" }

type replayBuilder struct {
	u       *UnitResult
	g       *Gen
	m       *modelSession
	fn      *ssa.Function
	pkg     *types.Package
	imports map[string]string // path -> name
	pre     []string          // statements building inputs
	pins    []string          // (assert (= term value)) for inputs
	notes   []string
	partial bool
	inputs  map[string]string
	ctr     int
	backing map[string]string // base value -> go variable of backing array (per elem type)
	objs    map[string]string // type|ref -> go variable
	obs     []obsPoint
}

type obsPoint struct {
	path string // printed key
	term string // SMT term to pin (scalar) -- for dynamic (indexed) ones, termFn
	kind string // "int","bool","nil"
	bits int
}

func (rb *replayBuilder) typeStr(t types.Type) string {
	return types.TypeString(t, func(p *types.Package) string {
		if p == rb.pkg {
			return ""
		}
		rb.imports[p.Path()] = p.Name()
		return p.Name()
	})
}

func (rb *replayBuilder) pin(term, val string) { rb.pins = append(rb.pins, fmt.Sprintf("(assert (= %s %s))", term, val)) }

func signedVal(n *big.Int, bits int, signed bool) *big.Int {
	if signed && n.Bit(bits-1) == 1 {
		return new(big.Int).Sub(n, new(big.Int).Lsh(big.NewInt(1), uint(bits)))
	}
	return n
}

// lit builds a Go expression for the model's value of v (type t) in the entry state.
func (rb *replayBuilder) lit(v *SVal, t types.Type, st *State, depth int) string {
	g := rb.g
	if depth > 6 {
		rb.partial = true
		return rb.zeroExpr(t)
	}
	switch kindOf(t) {
	case KBool:
		b := rb.m.boolean(v.Term)
		rb.pin(v.Term, fmt.Sprint(b))
		return fmt.Sprint(b)
	case KInt:
		bits, signed := intInfo(t)
		n, ok := rb.m.bv(v.Term)
		if !ok {
			rb.partial = true
			return rb.zeroExpr(t)
		}
		rb.pin(v.Term, bvLit(n, bits))
		return fmt.Sprintf("%s(%s)", rb.typeStr(t), signedVal(n, bits, signed).String())
	case KTime:
		sec, ok1 := rb.m.bv(v.Sub[0].Term)
		nsec, ok2 := rb.m.bv(v.Sub[1].Term)
		if !ok1 || !ok2 {
			rb.partial = true
			return "time.Time{}"
		}
		rb.pin(v.Sub[0].Term, bvLit(sec, 64))
		rb.pin(v.Sub[1].Term, bvLit(nsec, 64))
		rb.imports["time"] = "time"
		return fmt.Sprintf("time.Unix(%s, %s)", signedVal(sec, 64, true), signedVal(nsec, 64, true))
	case KSlice:
		et := t.Underlying().(*types.Slice).Elem()
		base, _ := rb.m.bv(v.Sub[0].Term)
		off, _ := rb.m.bv(v.Sub[1].Term)
		ln, _ := rb.m.bv(v.Sub[2].Term)
		cp, _ := rb.m.bv(v.Sub[3].Term)
		if base == nil || off == nil || ln == nil || cp == nil {
			rb.partial = true
			return "nil"
		}
		rb.pin(v.Sub[2].Term, bvLit(ln, 64))
		if base.Sign() == 0 {
			rb.pin(v.Sub[0].Term, bv64(0))
			return "nil"
		}
		if !elemTwoLevel(et) || kindOf(et) == KString || kindOf(et) == KOpaque || kindOf(et) == KFloat || kindOf(et) == KFunc || kindOf(et) == KChan || kindOf(et) == KMap {
			rb.partial = true
			rb.notes = append(rb.notes, "slice of "+et.String()+": contents not reconstructed")
			return fmt.Sprintf("make(%s, %s)", rb.typeStr(t), ln)
		}
		if cp.Cmp(big.NewInt(1<<20)) > 0 {
			// keep the model's length, but a smaller capacity is not the model's input
			rb.partial = true
			rb.notes = append(rb.notes, "capacity "+cp.String()+" too large to allocate; clipped")
			cp = new(big.Int).Set(ln)
			if cp.Cmp(big.NewInt(1<<20)) > 0 {
				return "nil"
			}
		} else {
			rb.pin(v.Sub[3].Term, bvLit(cp, 64))
		}
		rb.pin(v.Sub[0].Term, bvLit(base, 64))
		rb.pin(v.Sub[1].Term, bvLit(off, 64))
		// backing array shared by all slices with the same base
		key := typeKey(et) + "|" + base.String()
		bk, ok := rb.backing[key]
		need := new(big.Int).Add(off, cp)
		if need.Cmp(big.NewInt(1<<21)) > 0 {
			rb.partial = true
			need = big.NewInt(1 << 21)
		}
		if !ok {
			rb.ctr++
			bk = fmt.Sprintf("bk%d", rb.ctr)
			rb.backing[key] = bk
			rb.pre = append(rb.pre, fmt.Sprintf("%s := make([]%s, %s)", bk, rb.typeStr(et), need))
		} else {
			rb.pre = append(rb.pre, fmt.Sprintf("if len(%s) < %s { %s = append(%s, make([]%s, %s-len(%s))...) }", bk, need, bk, bk, rb.typeStr(et), need, bk))
		}
		// contents (bounded)
		h := g.heapGet(st, elemFam(et), g.elemHeapSort(et))
		lim := int64(4096)
		n := cp.Int64()
		if n > lim {
			n = lim
			rb.notes = append(rb.notes, "only the first 4096 elements of a slice are taken from the model")
		}
		for i := int64(0); i < n; i++ {
			idx := new(big.Int).Add(off, big.NewInt(i))
			term := sSel(sSel(h, bvLit(base, 64)), bvLit(idx, 64))
			ev := &SVal{T: et, K: kindOf(et), Term: term}
			val := rb.lit(ev, et, st, depth+1)
			if val != rb.zeroExpr(et) && idx.Cmp(need) < 0 {
				rb.pre = append(rb.pre, fmt.Sprintf("%s[%s] = %s", bk, idx, val))
			}
		}
		return fmt.Sprintf("%s[%s:%s:%s]", bk, off, new(big.Int).Add(off, ln), new(big.Int).Add(off, cp))
	case KArray:
		at := t.Underlying().(*types.Array)
		if !elemTwoLevel(at.Elem()) || at.Len() > 4096 {
			rb.partial = true
			return rb.zeroExpr(t)
		}
		var elems []string
		for i := int64(0); i < at.Len(); i++ {
			ev := &SVal{T: at.Elem(), K: kindOf(at.Elem()), Term: sSel(v.Term, bv64(i))}
			x := rb.lit(ev, at.Elem(), st, depth+1)
			if x != rb.zeroExpr(at.Elem()) {
				elems = append(elems, fmt.Sprintf("%d: %s", i, x))
			}
		}
		return fmt.Sprintf("%s{%s}", rb.typeStr(t), strings.Join(elems, ", "))
	case KPtr:
		pt, ok := t.Underlying().(*types.Pointer)
		if !ok {
			return "nil"
		}
		ref, okv := rb.m.bv(v.Term)
		if !okv {
			rb.partial = true
			return "nil"
		}
		rb.pin(v.Term, bvLit(ref, 64))
		if ref.Sign() == 0 {
			return "nil"
		}
		et := pt.Elem()
		key := typeKey(et) + "|" + ref.String()
		if name, ok := rb.objs[key]; ok {
			return name
		}
		rb.ctr++
		name := fmt.Sprintf("obj%d", rb.ctr)
		rb.objs[key] = name
		cv := &SVal{T: t, K: KPtr, Term: bvLit(ref, 64), Prov: v.Prov}
		if v.Prov != nil {
			rb.partial = true
			rb.notes = append(rb.notes, "interior pointer parameter: rebuilt as a standalone cell")
			cv.Prov = nil
		}
		var val string
		func() {
			defer func() {
				if r := recover(); r != nil {
					if _, isErr := r.(error); !isErr {
						panic(r)
					}
					rb.partial = true
					val = rb.zeroExpr(et)
				}
			}()
			if kindOf(et) == KStruct {
				val = rb.structLit(cv, et, st, depth+1)
			} else {
				loaded := g.load(st, cv, et)
				val = rb.lit(loaded, et, st, depth+1)
			}
		}()
		rb.pre = append(rb.pre, fmt.Sprintf("%s := new(%s)", name, rb.typeStr(et)), fmt.Sprintf("*%s = %s", name, val))
		return name
	case KStruct:
		st2 := structOf(t)
		var fs []string
		for i := 0; i < st2.NumFields(); i++ {
			f := st2.Field(i)
			if !rb.canName(f) {
				rb.partial = true
				continue
			}
			x := rb.lit(v.Sub[i], f.Type(), st, depth+1)
			fs = append(fs, fmt.Sprintf("%s: %s", f.Name(), x))
		}
		return fmt.Sprintf("%s{%s}", rb.typeStr(t), strings.Join(fs, ", "))
	case KString:
		ln, ok := rb.m.bv(sApp("strlen", v.Term))
		if !ok || ln.Cmp(big.NewInt(4096)) > 0 {
			rb.partial = true
			return `""`
		}
		var bs []byte
		for i := int64(0); i < ln.Int64(); i++ {
			c, _ := rb.m.bv(sApp("strat", v.Term, bv64(i)))
			if c == nil {
				c = big.NewInt(0)
			}
			bs = append(bs, byte(c.Int64()))
			rb.pin(sApp("strat", v.Term, bv64(i)), bvLit(c, 8))
		}
		rb.pin(sApp("strlen", v.Term), bvLit(ln, 64))
		return strconv.Quote(string(bs))
	case KIface:
		tag, _ := rb.m.bv(v.Sub[0].Term)
		if tag != nil && tag.Sign() == 0 {
			rb.pin(v.Sub[0].Term, bvLit(tag, 32))
			return "nil"
		}
		rb.partial = true
		rb.notes = append(rb.notes, "non-nil interface value of type "+t.String()+" not reconstructed (nil used)")
		return "nil"
	}
	rb.partial = true
	rb.notes = append(rb.notes, "value of type "+t.String()+" not reconstructed (zero used)")
	return rb.zeroExpr(t)
}

func (rb *replayBuilder) canName(f *types.Var) bool {
	return f.Exported() || f.Pkg() == rb.pkg
}

func (rb *replayBuilder) structLit(p *SVal, t types.Type, st *State, depth int) string {
	g := rb.g
	s := structOf(t)
	var fs []string
	for i := 0; i < s.NumFields(); i++ {
		f := s.Field(i)
		if !rb.canName(f) {
			rb.partial = true
			continue
		}
		fa := g.fieldAddr(p, t, i)
		var x string
		func() {
			defer func() {
				if r := recover(); r != nil {
					if _, isErr := r.(error); !isErr {
						panic(r)
					}
					rb.partial = true
					x = ""
				}
			}()
			switch kindOf(f.Type()) {
			case KStruct:
				x = rb.structLit(fa, f.Type(), st, depth+1)
			case KArray:
				x = rb.lit(g.load(st, fa, f.Type()), f.Type(), st, depth+1)
			default:
				x = rb.lit(g.load(st, fa, f.Type()), f.Type(), st, depth+1)
			}
		}()
		if x != "" && x != rb.zeroExpr(f.Type()) {
			fs = append(fs, fmt.Sprintf("%s: %s", f.Name(), x))
		}
	}
	return fmt.Sprintf("%s{%s}", rb.typeStr(t), strings.Join(fs, ", "))
}

func (rb *replayBuilder) zeroExpr(t types.Type) string {
	switch kindOf(t) {
	case KBool:
		return "false"
	case KInt:
		return fmt.Sprintf("%s(0)", rb.typeStr(t))
	case KString:
		return `""`
	case KPtr, KSlice, KMap, KChan, KFunc, KIface:
		return "nil"
	}
	return rb.typeStr(t) + "{}"
}

// observe emits print statements for expr (type t) and records how to pin what is printed.
func (rb *replayBuilder) observe(out *[]string, path, expr string, v *SVal, t types.Type, st *State, depth int) {
	g := rb.g
	if depth > 3 || v == nil {
		return
	}
	switch kindOf(t) {
	case KBool:
		*out = append(*out, fmt.Sprintf(`fmt.Println("GOVC-OUT", %q, %s)`, path, expr))
		rb.obs = append(rb.obs, obsPoint{path, v.Term, "bool", 0})
	case KInt:
		bits, _ := intInfo(t)
		*out = append(*out, fmt.Sprintf(`fmt.Println("GOVC-OUT", %q, uint64(%s))`, path, expr))
		rb.obs = append(rb.obs, obsPoint{path, v.Term, "int", bits})
	case KIface:
		*out = append(*out, fmt.Sprintf(`fmt.Println("GOVC-OUT", %q, %s == nil)`, path, expr))
		rb.obs = append(rb.obs, obsPoint{path, v.Sub[0].Term, "nil", 32})
	case KSlice:
		et := t.Underlying().(*types.Slice).Elem()
		*out = append(*out, fmt.Sprintf(`fmt.Println("GOVC-OUT", %q, uint64(len(%s)))`, path+".len", expr))
		rb.obs = append(rb.obs, obsPoint{path + ".len", v.Sub[2].Term, "int", 64})
		if elemTwoLevel(et) && (kindOf(et) == KInt || kindOf(et) == KBool) {
			h := g.heapGet(st, elemFam(et), g.elemHeapSort(et))
			bits, _ := intInfo(et)
			conv := "uint64(%s[i])"
			kind := "int"
			if kindOf(et) == KBool {
				conv, kind = "%s[i]", "bool"
			}
			*out = append(*out, fmt.Sprintf(`for i := 0; i < len(%s) && i < 512; i++ { fmt.Println("GOVC-OUT", fmt.Sprintf("%%s[%%d]", %q, i), `+conv+`) }`, expr, path, expr))
			rb.obs = append(rb.obs, obsPoint{path + "[]", sSel(h, v.Sub[0].Term) + "\x00" + v.Sub[1].Term, kind, bits})
		}
	case KPtr:
		pt, ok := t.Underlying().(*types.Pointer)
		if !ok {
			return
		}
		*out = append(*out, fmt.Sprintf(`fmt.Println("GOVC-OUT", %q, %s == nil)`, path+".isnil", expr))
		rb.obs = append(rb.obs, obsPoint{path + ".isnil", v.Term, "nilptr", 64})
		if s := structOf(pt.Elem()); s != nil && v.Prov == nil {
			var inner []string
			for i := 0; i < s.NumFields(); i++ {
				f := s.Field(i)
				if !rb.canName(f) {
					continue
				}
				func() {
					defer func() {
						if r := recover(); r != nil {
							if _, isErr := r.(error); !isErr {
								panic(r)
							}
						}
					}()
					fa := g.fieldAddr(v, pt.Elem(), i)
					switch kindOf(f.Type()) {
					case KStruct, KArray, KMap, KFunc, KChan, KString, KOpaque, KFloat:
						return
					}
					fv := g.load(st, fa, f.Type())
					rb.observe(&inner, path+"."+f.Name(), "("+expr+")."+f.Name(), fv, f.Type(), st, depth+1)
				}()
			}
			if len(inner) > 0 {
				*out = append(*out, fmt.Sprintf("if %s != nil {", expr))
				*out = append(*out, inner...)
				*out = append(*out, "}")
			}
		}
	case KStruct:
		s := structOf(t)
		for i := 0; i < s.NumFields(); i++ {
			f := s.Field(i)
			if !rb.canName(f) {
				continue
			}
			switch kindOf(f.Type()) {
			case KMap, KFunc, KChan, KString, KOpaque, KFloat, KArray:
				continue
			}
			rb.observe(out, path+"."+f.Name(), "("+expr+")."+f.Name(), v.Sub[i], f.Type(), st, depth+1)
		}
	}
}

func collectSizeTerms(g *Gen, v *SVal, t types.Type, st *State, depth int, out *[]string) {
	if v == nil || depth > 3 {
		return
	}
	defer func() {
		if r := recover(); r != nil {
			if _, isErr := r.(error); !isErr {
				panic(r)
			}
		}
	}()
	switch kindOf(t) {
	case KSlice:
		*out = append(*out, v.Sub[1].Term, v.Sub[2].Term, v.Sub[3].Term)
	case KString:
		*out = append(*out, sApp("strlen", v.Term))
	case KStruct:
		s := structOf(t)
		for i := 0; i < s.NumFields(); i++ {
			collectSizeTerms(g, v.Sub[i], s.Field(i).Type(), st, depth+1, out)
		}
	case KPtr:
		pt, ok := t.Underlying().(*types.Pointer)
		if !ok || v.Prov != nil {
			return
		}
		if s := structOf(pt.Elem()); s != nil && kindOf(pt.Elem()) == KStruct {
			for i := 0; i < s.NumFields(); i++ {
				ft := s.Field(i).Type()
				switch kindOf(ft) {
				case KSlice, KString, KStruct, KPtr:
					fa := g.fieldAddr(v, pt.Elem(), i)
					if kindOf(ft) == KStruct {
						collectSizeTerms(g, g.load(st, fa, ft), ft, st, depth+1, out)
					} else {
						collectSizeTerms(g, g.load(st, fa, ft), ft, st, depth+1, out)
					}
				}
			}
		}
	}
}

func panicKind(k string) bool {
	switch k {
	case "index", "slice", "div", "nilmap", "panic", "typeassert", "shift", "makeslice", "nil":
		return true
	}
	return false
}

func (u *UnitResult) replay(o *OblResult, p *Program, base string) (rr ReplayResult) {
	doc := &replayDoc{Obligation: o.Name, Kind: o.Kind, Clause: o.Clause, Desc: o.Desc, Pos: o.Pos, Unit: u.Unit, Function: u.Key, Solver: o.Solver, SolverOut: o.Output, SMTFile: o.SMTFile, Outcome: "no-failing-input-found"}
	jsonPath := base + ".json"
	defer func() {
		if r := recover(); r != nil {
			doc.Notes = append(doc.Notes, fmt.Sprintf("replay generation failed: %v", r))
			doc.Outcome = "no-failing-input-found"
			rr = ReplayResult{jsonPath, false}
		}
		b, _ := json.MarshalIndent(doc, "", " ")
		os.WriteFile(jsonPath, b, 0o644)
	}()
	rr = ReplayResult{jsonPath, false}
	smt := o.SMTFile
	if o.Status != "failed" {
		if o.Candidate && o.QFModelFile != "" {
			smt = o.QFModelFile
			doc.Notes = append(doc.Notes, "no model from the full query; trying the model of the quantifier-free relaxation as a candidate input")
		} else {
			doc.Notes = append(doc.Notes, "the solver gave no model for this obligation ("+o.Status+")")
			return
		}
	}
	if u.Kind == "lemma" {
		u.replayLemma(o, p, base, smt, doc, &rr)
		return
	}
	// a hand-written replay template for this unit+kind takes precedence (inputs that cannot be rebuilt generically)
	if tp := filepath.Join(verifDir(), "lemmas", sanitize(u.Unit)+"__"+o.Kind+".replay.go.tmpl"); fileExists(tp) {
		u.replayTemplate(tp, o, p, base, smt, doc, &rr, nil, "")
		return
	}
	if u.Kind != "func" || u.frame == nil {
		doc.Notes = append(doc.Notes, "replay is implemented for function units and for lemmas with a replay template")
		return
	}
	query, err := os.ReadFile(smt)
	if err != nil {
		doc.Notes = append(doc.Notes, "cannot read smt file: "+err.Error())
		return
	}
	qtext := strings.Replace(string(query), "(check-sat)\n", "", 1)
	sess, err := startZ3("z3-new")
	if err != nil {
		doc.Notes = append(doc.Notes, "cannot start z3-new: "+err.Error())
		return
	}
	defer sess.close()
	sess.send("(set-option :timeout 60000)")
	sess.send(qtext)
	sess.send("(check-sat)")
	ans, err := sess.readSexp(90 * time.Second)
	if err != nil || strings.TrimSpace(ans) != "sat" {
		doc.Notes = append(doc.Notes, "model extraction: z3-new answered "+strings.TrimSpace(ans))
		return
	}
	fn := u.frame.fn
	if fn.Pkg == nil || fn.Parent() != nil {
		doc.Notes = append(doc.Notes, "replay of closures / synthetic functions not supported")
		return
	}
	g := u.gen
	// prefer a small model: bound every length/capacity/offset reachable from the parameters
	var sizeTerms []string
	for _, prm := range fn.Params {
		collectSizeTerms(g, u.frame.vals[prm], prm.Type(), g.entry, 0, &sizeTerms)
	}
	if len(sizeTerms) > 0 {
		for _, bound := range []int64{8, 64, 1024, 65536, 1 << 20} {
			sess.send("(push 1)")
			var cs []string
			for _, t := range sizeTerms {
				cs = append(cs, sApp("bvule", t, bv64(bound)))
			}
			sess.send("(assert " + sAnd(cs...) + ")")
			sess.send("(check-sat)")
			a2, err2 := sess.readSexp(60 * time.Second)
			if err2 == nil && strings.TrimSpace(a2) == "sat" {
				doc.Notes = append(doc.Notes, fmt.Sprintf("model minimised: all lengths, capacities and offsets <= %d", bound))
				break
			}
			if err2 != nil {
				doc.Notes = append(doc.Notes, "model minimisation aborted: "+err2.Error())
				return
			}
			sess.send("(pop 1)")
			if bound == 1<<20 {
				sess.send("(check-sat)")
				sess.readSexp(90 * time.Second)
			}
		}
	}
	rb := &replayBuilder{u: u, g: g, m: &modelSession{s: sess, cache: map[string]string{}}, fn: fn, pkg: fn.Pkg.Pkg,
		imports: map[string]string{"fmt": "fmt", "testing": "testing"}, inputs: map[string]string{}, backing: map[string]string{}, objs: map[string]string{}}
	entry := g.entry
	var argNames []string
	for i, prm := range fn.Params {
		v := u.frame.vals[prm]
		name := fmt.Sprintf("p%d", i)
		expr := rb.lit(v, prm.Type(), entry, 0)
		rb.pre = append(rb.pre, fmt.Sprintf("var %s %s = %s", name, rb.typeStr(prm.Type()), expr))
		rb.inputs[prm.Name()] = expr
		argNames = append(argNames, name)
	}
	doc.Inputs = rb.inputs
	// call expression
	var call string
	if fn.Signature.Recv() != nil {
		call = fmt.Sprintf("%s.%s(%s)", argNames[0], fn.Name(), strings.Join(argNames[1:], ", "))
	} else {
		call = fmt.Sprintf("%s(%s)", fn.Name(), strings.Join(argNames, ", "))
	}
	nres := fn.Signature.Results().Len()
	var resNames []string
	for i := 0; i < nres; i++ {
		resNames = append(resNames, fmt.Sprintf("r%d", i))
	}
	// observations
	var obsStmts []string
	var ret *retInfo
	if o.obl != nil {
		ret = o.obl.Ret
	}
	if ret != nil {
		for i := 0; i < nres; i++ {
			rb.observe(&obsStmts, resNames[i], resNames[i], ret.vals[i], fn.Signature.Results().At(i).Type(), ret.st, 0)
		}
		for i, prm := range fn.Params {
			v := u.frame.vals[prm]
			switch kindOf(prm.Type()) {
			case KPtr, KSlice:
				rb.observe(&obsStmts, fmt.Sprintf("post.p%d", i), argNames[i], v, prm.Type(), ret.st, 0)
			}
		}
	}
	// test source
	var sb strings.Builder
	fmt.Fprintf(&sb, "// Code generated by govc replay for obligation %s. DO NOT EDIT.\n\npackage %s\n\nimport (\n", o.Name, fn.Pkg.Pkg.Name())
	for path, name := range rb.imports {
		if name == filepath.Base(path) || name == path {
			fmt.Fprintf(&sb, "\t%q\n", path)
		} else {
			fmt.Fprintf(&sb, "\t%s %q\n", name, path)
		}
	}
	sb.WriteString(")\n\nfunc TestGovcReplay(t *testing.T) {\n")
	for _, s := range rb.pre {
		sb.WriteString("\t" + s + "\n")
	}
	sb.WriteString("\tdefer func() {\n\t\tif r := recover(); r != nil {\n\t\t\tfmt.Println(\"GOVC-PANIC\", r)\n\t\t}\n\t}()\n")
	if nres > 0 {
		fmt.Fprintf(&sb, "\t%s := %s\n", strings.Join(resNames, ", "), call)
		for _, r := range resNames {
			fmt.Fprintf(&sb, "\t_ = %s\n", r)
		}
	} else {
		fmt.Fprintf(&sb, "\t%s\n", call)
	}
	sb.WriteString("\tfmt.Println(\"GOVC-RETURNED\")\n")
	for _, s := range obsStmts {
		sb.WriteString("\t" + s + "\n")
	}
	for _, a := range argNames {
		fmt.Fprintf(&sb, "\t_ = %s\n", a)
	}
	sb.WriteString("}\n")
	testFile := base + "_test.go"
	os.WriteFile(testFile, []byte(sb.String()), 0o644)
	doc.TestFile = testFile
	doc.Notes = append(doc.Notes, rb.notes...)
	// overlay run
	pkgDir := filepath.Dir(p.prog.Fset.Position(fn.Pos()).Filename)
	ov := map[string]map[string]string{"Replace": {filepath.Join(pkgDir, "zz_govc_replay_test.go"): testFile}}
	ovb, _ := json.Marshal(ov)
	ovFile := base + "_overlay.json"
	os.WriteFile(ovFile, ovb, 0o644)
	rel, _ := filepath.Rel(p.RepoDir, pkgDir)
	cmdline := fmt.Sprintf("cd %s && GOFLAGS=-mod=mod GOPROXY=off go test -overlay %s -vet=off -count=1 -v -timeout 60s -run '^TestGovcReplay$' ./%s", p.RepoDir, ovFile, rel)
	doc.TestCmd = cmdline
	cmd := exec.Command("bash", "-c", "ulimit -v 8000000; "+cmdline)
	cmd.Env = replayEnv()
	outb, _ := cmd.CombinedOutput()
	out := string(outb)
	if len(out) > 6000 {
		doc.Transcript = out[:3000] + "\n...\n" + out[len(out)-3000:]
	} else {
		doc.Transcript = out
	}
	panicked := strings.Contains(out, "GOVC-PANIC")
	returned := strings.Contains(out, "GOVC-RETURNED")
	if !panicked && !returned {
		doc.Notes = append(doc.Notes, "the replay test did not run to completion (build error or crash outside recover)")
		if strings.Contains(out, "panic:") || strings.Contains(out, "fatal error:") {
			panicked = true
		} else {
			return
		}
	}
	if panicKind(o.Kind) {
		if panicked {
			doc.Outcome = "confirmed"
			rr.Confirmed = true
		} else {
			doc.Outcome = "not-confirmed"
			doc.Notes = append(doc.Notes, "the real function returned normally on the model's inputs (the model is spurious: an abstraction in the contracts or encoder is too weak)")
		}
		return
	}
	if panicked {
		doc.Outcome = "not-confirmed"
		doc.Notes = append(doc.Notes, "the real function panicked where the model expected a return")
		return
	}
	if rb.partial {
		doc.Outcome = "not-confirmed"
		doc.Notes = append(doc.Notes, "inputs only partially reconstructed; the observed outputs cannot be tied to the model")
		return
	}
	// pin observed outputs
	pins := append([]string{}, rb.pins...)
	obsByPath := map[string]obsPoint{}
	for _, op := range rb.obs {
		obsByPath[op.path] = op
	}
	for _, line := range strings.Split(out, "\n") {
		f := strings.Fields(line)
		if len(f) != 3 || f[0] != "GOVC-OUT" {
			continue
		}
		path, val := f[1], f[2]
		op, ok := obsByPath[path]
		idx := int64(-1)
		if !ok {
			if i := strings.LastIndex(path, "["); i > 0 && strings.HasSuffix(path, "]") {
				if op2, ok2 := obsByPath[path[:i]+"[]"]; ok2 {
					op, ok = op2, true
					idx, _ = strconv.ParseInt(path[i+1:len(path)-1], 10, 64)
				}
			}
		}
		if !ok {
			continue
		}
		term := op.term
		if idx >= 0 {
			parts := strings.SplitN(op.term, "\x00", 2)
			term = sSel(parts[0], sApp("bvadd", parts[1], bv64(idx)))
		}
		switch op.kind {
		case "bool":
			pins = append(pins, fmt.Sprintf("(assert (= %s %s))", term, val))
		case "int":
			n := new(big.Int)
			n.SetString(val, 10)
			pins = append(pins, fmt.Sprintf("(assert (= %s %s))", term, bvLit(n, op.bits)))
		case "nil":
			if val == "true" {
				pins = append(pins, fmt.Sprintf("(assert (= %s %s))", term, bvLit(big.NewInt(0), 32)))
			} else {
				pins = append(pins, fmt.Sprintf("(assert (not (= %s %s)))", term, bvLit(big.NewInt(0), 32)))
			}
		case "nilptr":
			if val == "true" {
				pins = append(pins, fmt.Sprintf("(assert (= %s %s))", term, bv64(0)))
			} else {
				pins = append(pins, fmt.Sprintf("(assert (not (= %s %s)))", term, bv64(0)))
			}
		}
	}
	pinned := strings.Replace(string(query), "(check-sat)\n", strings.Join(pins, "\n")+"\n(check-sat)\n", 1)
	pf := base + "_pinned.smt2"
	os.WriteFile(pf, []byte(pinned), 0o644)
	a, _ := race(pf, 60000, 1, nil)
	switch a.Status {
	case "sat":
		doc.Outcome = "confirmed"
		rr.Confirmed = true
		doc.Notes = append(doc.Notes, "the real outputs, pinned onto the verifier's terms together with the inputs, still falsify the clause")
	case "unsat":
		doc.Outcome = "not-confirmed"
		doc.Notes = append(doc.Notes, "the real outputs differ from the model's: the clause holds for this input on the real code, or the encoder's semantics differ from the real execution here")
	default:
		doc.Outcome = "not-confirmed"
		doc.Notes = append(doc.Notes, "pinned query undecided: "+a.Status)
	}
	return
}

func replayEnv() []string {
	var env []string
	for _, e := range os.Environ() {
		if strings.HasPrefix(e, "GOTOOLCHAIN=") || strings.HasPrefix(e, "GOSUMDB=") || strings.HasPrefix(e, "GOFLAGS=") || strings.HasPrefix(e, "PATH=") {
			continue
		}
		env = append(env, e)
	}
	// the repository's own toolchain (default go, auto-switch to the cached go1.26.0)
	path := os.Getenv("PATH")
	var keep []string
	for _, d := range strings.Split(path, ":") {
		if strings.Contains(d, "/opt/veriftools/go1.26.8") {
			continue
		}
		keep = append(keep, d)
	}
	env = append(env, "PATH="+strings.Join(keep, ":"), "GOFLAGS=-mod=mod", "GOPROXY=off")
	return env
}

// otherViolation: is the obligation still refutable outside the known-finding predicate?
func (u *UnitResult) otherViolation(o *OblResult, exclude string, opt Options) bool {
	g := u.gen
	defer func() { recover() }()
	ex, err := parseExpr(exclude)
	if err != nil || u.frame == nil {
		return true
	}
	env := u.frame.specEnv(g.entry, g.entry)
	t := env.evalBool(ex)
	// evaluate the predicate first (its definitions must be declared), then build the query
	q2 := g.query([]*Obligation{o.obl}, true)
	q2 = strings.Replace(q2, "(check-sat)\n", "(assert (not "+t+"))\n(check-sat)\n", 1)
	file := scratchFile(opt.WorkDir, o.Name+"_outside_known")
	os.WriteFile(file, []byte(q2), 0o644)
	a, _ := race(file, opt.TimeoutMs, 1, opt.Solvers)
	return a.Status != "unsat"
}


// replayLemma: a lemma talks about contracts, not one call; its replay is a hand-written template
// (/verif/lemmas/<name>.replay.go.tmpl) that calls the real functions the lemma is about with the
// model's values substituted for {{param}} and prints GOVC-CONFIRMED when the real code misbehaves.
func fileExists(p string) bool {
	_, err := os.Stat(p)
	return err == nil
}

func (u *UnitResult) replayLemma(o *OblResult, p *Program, base, smt string, doc *replayDoc, rr *ReplayResult) {
	tmplPath := filepath.Join(verifDir(), "lemmas", u.Key+".replay.go.tmpl")
	lm := p.Specs.Lemmas[u.Key]
	var names []string
	for _, prm := range lm.Params {
		names = append(names, prm.Name)
	}
	u.replayTemplate(tmplPath, o, p, base, smt, doc, rr, names, lm.PkgPath)
}

// replayTemplate: a replay written by hand (/verif/lemmas/*.replay.go.tmpl) that calls the real
// functions with the model's values substituted for {{param}} and prints GOVC-CONFIRMED when the
// real code misbehaves.
func (u *UnitResult) replayTemplate(tmplPath string, o *OblResult, p *Program, base, smt string, doc *replayDoc, rr *ReplayResult, params []string, pkgPath string) {
	tb, err := os.ReadFile(tmplPath)
	if err != nil {
		doc.Notes = append(doc.Notes, "no replay template ("+tmplPath+")")
		return
	}
	text := string(tb)
	g := u.gen
	if len(params) > 0 {
		query, err := os.ReadFile(smt)
		if err != nil {
			return
		}
		sess, err := startZ3("z3-new")
		if err != nil {
			return
		}
		defer sess.close()
		sess.send("(set-option :timeout 60000)")
		sess.send(strings.Replace(string(query), "(check-sat)\n", "", 1))
		sess.send("(check-sat)")
		ans, err := sess.readSexp(90 * time.Second)
		if err != nil || strings.TrimSpace(ans) != "sat" {
			doc.Notes = append(doc.Notes, "model extraction: z3-new answered "+strings.TrimSpace(ans))
			return
		}
		rb := &replayBuilder{u: u, g: g, m: &modelSession{s: sess, cache: map[string]string{}}, pkg: p.typesPkg(pkgPath),
			imports: map[string]string{}, inputs: map[string]string{}, backing: map[string]string{}, objs: map[string]string{}}
		for _, name := range params {
			v := u.lemmaVals[name]
			if v == nil {
				continue
			}
			lit := rb.lit(v, v.T, g.entry, 0)
			rb.inputs[name] = lit
			text = strings.ReplaceAll(text, "{{"+name+"}}", lit)
		}
		doc.Inputs = rb.inputs
		if len(rb.pre) > 0 || rb.partial {
			doc.Notes = append(doc.Notes, "parameters of this shape cannot be substituted into the template")
			return
		}
	}
	dir := "."
	for _, line := range strings.Split(text, "\n") {
		if strings.HasPrefix(line, "// package-dir:") {
			dir = strings.TrimSpace(strings.TrimPrefix(line, "// package-dir:"))
		}
	}
	testFile := base + "_test.go"
	os.WriteFile(testFile, []byte(text), 0o644)
	doc.TestFile = testFile
	pkgDir := filepath.Join(p.RepoDir, dir)
	ov := map[string]map[string]string{"Replace": {filepath.Join(pkgDir, "zz_govc_replay_test.go"): testFile}}
	ovb, _ := json.Marshal(ov)
	ovFile := base + "_overlay.json"
	os.WriteFile(ovFile, ovb, 0o644)
	cmdline := fmt.Sprintf("cd %s && GOFLAGS=-mod=mod GOPROXY=off go test -overlay %s -vet=off -count=1 -v -timeout 60s -run '^TestGovcReplay$' ./%s", p.RepoDir, ovFile, dir)
	doc.TestCmd = cmdline
	cmd := exec.Command("bash", "-c", "ulimit -v 8000000; "+cmdline)
	cmd.Env = replayEnv()
	outb, _ := cmd.CombinedOutput()
	doc.Transcript = string(outb)
	if len(doc.Transcript) > 6000 {
		doc.Transcript = doc.Transcript[:6000]
	}
	if strings.Contains(string(outb), "GOVC-CONFIRMED") {
		doc.Outcome = "confirmed"
		rr.Confirmed = true
	} else {
		doc.Outcome = "not-confirmed"
		doc.Notes = append(doc.Notes, "the real functions did not exhibit the behaviour the failed obligation allows")
	}
}
