package main

import (
	"fmt"
	"strings"
)

// ---------------------------------------------------------------------------
// Contract expression language (GVC): lexer, AST, parser
// ---------------------------------------------------------------------------

type Expr interface{ exprString() string }

type (
	EIdent  struct{ Name string }
	ENum    struct{ Text string }
	EStr    struct{ Val string }
	EUnary  struct{ Op string; X Expr }
	EBinary struct {
		Op   string
		L, R Expr
	}
	ESel   struct{ X Expr; Name string }
	EIndex struct{ X, I Expr }
	ESlice struct{ X, Lo, Hi Expr }
	ECall  struct {
		Fun  Expr
		Args []Expr
	}
	EQuant struct {
		Forall bool
		Vars   []QVar
		Body   Expr
		Trig   []Expr
	}
	EStar struct{ X Expr } // x[*] in modifies clauses
	ETypeX struct{ T *TypeExpr }
	ECond  struct{ C, A, B Expr } // C ? A : B
)

type QVar struct {
	Name string
	Type *TypeExpr
}

// TypeExpr: a tiny type syntax: name | pkg.name | *T | []T | [N]T
type TypeExpr struct {
	Kind string // "name", "ptr", "slice", "array"
	Pkg  string
	Name string
	Elem *TypeExpr
	Key  *TypeExpr // "map"
	N    string
}

func (t *TypeExpr) String() string {
	switch t.Kind {
	case "ptr":
		return "*" + t.Elem.String()
	case "slice":
		return "[]" + t.Elem.String()
	case "array":
		return "[" + t.N + "]" + t.Elem.String()
	case "map":
		return "map[" + t.Key.String() + "]" + t.Elem.String()
	}
	if t.Pkg != "" {
		return t.Pkg + "." + t.Name
	}
	return t.Name
}

func (e *EIdent) exprString() string { return e.Name }
func (e *ENum) exprString() string   { return e.Text }
func (e *EStr) exprString() string   { return fmt.Sprintf("%q", e.Val) }
func (e *EUnary) exprString() string { return e.Op + e.X.exprString() }
func (e *EBinary) exprString() string {
	return "(" + e.L.exprString() + " " + e.Op + " " + e.R.exprString() + ")"
}
func (e *ESel) exprString() string   { return e.X.exprString() + "." + e.Name }
func (e *EIndex) exprString() string { return e.X.exprString() + "[" + e.I.exprString() + "]" }
func (e *ESlice) exprString() string {
	lo, hi := "", ""
	if e.Lo != nil {
		lo = e.Lo.exprString()
	}
	if e.Hi != nil {
		hi = e.Hi.exprString()
	}
	return e.X.exprString() + "[" + lo + ":" + hi + "]"
}
func (e *ECall) exprString() string {
	var xs []string
	for _, a := range e.Args {
		xs = append(xs, a.exprString())
	}
	return e.Fun.exprString() + "(" + strings.Join(xs, ", ") + ")"
}
func (e *EQuant) exprString() string {
	q := "exists"
	if e.Forall {
		q = "forall"
	}
	var xs []string
	for _, v := range e.Vars {
		xs = append(xs, v.Name+" "+v.Type.String())
	}
	return "(" + q + " " + strings.Join(xs, ", ") + " :: " + e.Body.exprString() + ")"
}
func (e *EStar) exprString() string  { return e.X.exprString() + "[*]" }
func (e *ETypeX) exprString() string { return e.T.String() }
func (e *ECond) exprString() string {
	return "(" + e.C.exprString() + " ? " + e.A.exprString() + " : " + e.B.exprString() + ")"
}

// --------------------------- lexer ---------------------------

type tok struct {
	kind string // "id", "num", "str", "op", "eof"
	text string
	pos  int
}

func lex(src string) ([]tok, error) {
	var toks []tok
	i := 0
	ops := []string{"<==>", "==>", "<<", ">>", "&&", "||", "==", "!=", "<=", ">=", "&^", "::", "+", "-", "*", "/", "%", "&", "|", "^", "<", ">", "!", "(", ")", "[", "]", ",", ".", ":", "?", "{", "}"}
	for i < len(src) {
		c := src[i]
		switch {
		case c == ' ' || c == '\t' || c == '\n' || c == '\r':
			i++
		case c >= 'a' && c <= 'z' || c >= 'A' && c <= 'Z' || c == '_' || c == '$':
			j := i
			for j < len(src) && (src[j] >= 'a' && src[j] <= 'z' || src[j] >= 'A' && src[j] <= 'Z' || src[j] == '_' || src[j] == '$' || src[j] >= '0' && src[j] <= '9') {
				j++
			}
			toks = append(toks, tok{"id", src[i:j], i})
			i = j
		case c >= '0' && c <= '9':
			j := i
			for j < len(src) && (src[j] >= '0' && src[j] <= '9' || src[j] >= 'a' && src[j] <= 'f' || src[j] >= 'A' && src[j] <= 'F' || src[j] == 'x' || src[j] == 'X' || src[j] == '_') {
				j++
			}
			toks = append(toks, tok{"num", strings.ReplaceAll(src[i:j], "_", ""), i})
			i = j
		case c == '"':
			j := i + 1
			for j < len(src) && src[j] != '"' {
				j++
			}
			if j >= len(src) {
				return nil, fmt.Errorf("unterminated string at %d", i)
			}
			toks = append(toks, tok{"str", src[i+1 : j], i})
			i = j + 1
		default:
			found := false
			for _, op := range ops {
				if strings.HasPrefix(src[i:], op) {
					toks = append(toks, tok{"op", op, i})
					i += len(op)
					found = true
					break
				}
			}
			if !found {
				return nil, fmt.Errorf("unexpected character %q at %d in %q", c, i, src)
			}
		}
	}
	toks = append(toks, tok{"eof", "", len(src)})
	return toks, nil
}

// --------------------------- parser ---------------------------

type parser struct {
	toks []tok
	p    int
	src  string
}

func parseExpr(src string) (e Expr, err error) {
	toks, err := lex(src)
	if err != nil {
		return nil, err
	}
	ps := &parser{toks: toks, src: src}
	defer func() {
		if r := recover(); r != nil {
			if pe, ok := r.(parseErr); ok {
				err = fmt.Errorf("%s in %q", string(pe), src)
				return
			}
			panic(r)
		}
	}()
	e = ps.expr()
	if ps.peek().kind != "eof" {
		ps.fail("trailing tokens at '" + ps.peek().text + "'")
	}
	return e, nil
}

type parseErr string

func (ps *parser) fail(msg string) { panic(parseErr(msg)) }
func (ps *parser) peek() tok     { return ps.toks[ps.p] }
func (ps *parser) next() tok     { t := ps.toks[ps.p]; ps.p++; return t }
func (ps *parser) isOp(s string) bool {
	t := ps.peek()
	return t.kind == "op" && t.text == s
}
func (ps *parser) isID(s string) bool {
	t := ps.peek()
	return t.kind == "id" && t.text == s
}
func (ps *parser) expectOp(s string) {
	if !ps.isOp(s) {
		ps.fail("expected '" + s + "' but found '" + ps.peek().text + "'")
	}
	ps.p++
}

func (ps *parser) expr() Expr {
	if ps.isID("forall") || ps.isID("exists") {
		return ps.quant()
	}
	return ps.iff()
}

func (ps *parser) quant() Expr {
	q := &EQuant{Forall: ps.next().text == "forall"}
	for {
		id := ps.next()
		if id.kind != "id" {
			ps.fail("expected bound variable name")
		}
		t := ps.typeExpr()
		q.Vars = append(q.Vars, QVar{id.text, t})
		if ps.isOp(",") {
			ps.p++
			continue
		}
		break
	}
	ps.expectOp("::")
	for ps.isOp("{") { // trigger
		ps.p++
		q.Trig = append(q.Trig, ps.expr())
		ps.expectOp("}")
	}
	q.Body = ps.expr()
	return q
}

func (ps *parser) typeExpr() *TypeExpr {
	if ps.isOp("*") {
		ps.p++
		return &TypeExpr{Kind: "ptr", Elem: ps.typeExpr()}
	}
	if ps.isOp("[") {
		ps.p++
		if ps.isOp("]") {
			ps.p++
			return &TypeExpr{Kind: "slice", Elem: ps.typeExpr()}
		}
		n := ps.next()
		ps.expectOp("]")
		return &TypeExpr{Kind: "array", N: n.text, Elem: ps.typeExpr()}
	}
	id := ps.next()
	if id.kind != "id" {
		ps.fail("expected type name, found '" + id.text + "'")
	}
	if id.text == "map" && ps.isOp("[") {
		ps.p++
		k := ps.typeExpr()
		ps.expectOp("]")
		return &TypeExpr{Kind: "map", Key: k, Elem: ps.typeExpr()}
	}
	if ps.isOp(".") {
		ps.p++
		n := ps.next()
		return &TypeExpr{Kind: "name", Pkg: id.text, Name: n.text}
	}
	return &TypeExpr{Kind: "name", Name: id.text}
}

func (ps *parser) iff() Expr {
	l := ps.implies()
	for ps.isOp("<==>") {
		ps.p++
		r := ps.implies()
		l = &EBinary{"<==>", l, r}
	}
	return l
}

func (ps *parser) implies() Expr {
	l := ps.cond()
	if ps.isOp("==>") {
		ps.p++
		var r Expr
		if ps.isID("forall") || ps.isID("exists") {
			r = ps.quant()
		} else {
			r = ps.implies()
		}
		return &EBinary{"==>", l, r}
	}
	return l
}

func (ps *parser) cond() Expr {
	c := ps.or()
	if ps.isOp("?") {
		ps.p++
		a := ps.cond()
		ps.expectOp(":")
		b := ps.cond()
		return &ECond{c, a, b}
	}
	return c
}

func (ps *parser) or() Expr {
	l := ps.and()
	for ps.isOp("||") {
		ps.p++
		l = &EBinary{"||", l, ps.and()}
	}
	return l
}

func (ps *parser) and() Expr {
	l := ps.cmp()
	for ps.isOp("&&") {
		ps.p++
		l = &EBinary{"&&", l, ps.cmp()}
	}
	return l
}

func (ps *parser) cmp() Expr {
	l := ps.add()
	for _, op := range []string{"==", "!=", "<=", ">=", "<", ">"} {
		if ps.isOp(op) {
			ps.p++
			r := ps.add()
			e := Expr(&EBinary{op, l, r})
			// chained comparisons: a <= b < c
			for _, op2 := range []string{"<=", "<", ">=", ">"} {
				if ps.isOp(op2) {
					ps.p++
					r2 := ps.add()
					e = &EBinary{"&&", e, &EBinary{op2, r, r2}}
					r = r2
				}
			}
			return e
		}
	}
	return l
}

func (ps *parser) add() Expr {
	l := ps.mul()
	for {
		found := false
		for _, op := range []string{"+", "-", "|", "^"} {
			if ps.isOp(op) {
				ps.p++
				l = &EBinary{op, l, ps.mul()}
				found = true
				break
			}
		}
		if !found {
			return l
		}
	}
}

func (ps *parser) mul() Expr {
	l := ps.unary()
	for {
		found := false
		for _, op := range []string{"*", "/", "%", "<<", ">>", "&^", "&"} {
			if ps.isOp(op) {
				ps.p++
				l = &EBinary{op, l, ps.unary()}
				found = true
				break
			}
		}
		if !found {
			return l
		}
	}
}

func (ps *parser) unary() Expr {
	for _, op := range []string{"!", "-", "^"} {
		if ps.isOp(op) {
			ps.p++
			return &EUnary{op, ps.unary()}
		}
	}
	if ps.isOp("*") { // deref
		ps.p++
		return &EUnary{"*", ps.unary()}
	}
	return ps.postfix()
}

func (ps *parser) postfix() Expr {
	x := ps.primary()
	for {
		switch {
		case ps.isOp("."):
			ps.p++
			n := ps.next()
			if n.kind != "id" {
				ps.fail("expected field name")
			}
			x = &ESel{x, n.text}
		case ps.isOp("["):
			ps.p++
			if ps.isOp("*") && ps.toks[ps.p+1].kind == "op" && ps.toks[ps.p+1].text == "]" {
				ps.p += 2
				x = &EStar{x}
				continue
			}
			var lo, hi Expr
			if !ps.isOp(":") {
				lo = ps.expr()
			}
			if ps.isOp(":") {
				ps.p++
				if !ps.isOp("]") {
					hi = ps.expr()
				}
				ps.expectOp("]")
				x = &ESlice{x, lo, hi}
			} else {
				ps.expectOp("]")
				x = &EIndex{x, lo}
			}
		case ps.isOp("("):
			ps.p++
			var args []Expr
			for !ps.isOp(")") {
				args = append(args, ps.expr())
				if ps.isOp(",") {
					ps.p++
				}
			}
			ps.expectOp(")")
			x = &ECall{x, args}
		default:
			return x
		}
	}
}

func (ps *parser) primary() Expr {
	t := ps.next()
	switch t.kind {
	case "id":
		return &EIdent{t.text}
	case "num":
		return &ENum{t.text}
	case "str":
		return &EStr{t.text}
	case "op":
		if t.text == "(" {
			// (*T) type expression used in conversions, or parenthesised expr
			e := ps.expr()
			ps.expectOp(")")
			return e
		}
		if t.text == "[" { // []T(x) or [N]T conversions are not needed; treat as type
			ps.p--
			return &ETypeX{ps.typeExpr()}
		}
	}
	ps.fail("unexpected token '" + t.text + "'")
	return nil
}
