package main

import (
	"fmt"
	"go/token"
	"go/types"
	"math/big"
	"strings"

	"golang.org/x/tools/go/ssa"
)

// ---------------------------------------------------------------------------
// Calls: builtins, Go-coded models of intrinsics, modular calls by contract,
// inlining of small uncontracted callees, default havoc.
// ---------------------------------------------------------------------------

const maxInlineDepth = 10

func (f *Frame) call(ins ssa.Instruction, c *ssa.CallCommon) *SVal {
	g := f.g
	pos := ins.Pos()
	var rt types.Type
	if v, ok := ins.(ssa.Value); ok {
		rt = v.Type()
	}
	if b, ok := c.Value.(*ssa.Builtin); ok {
		var args []*SVal
		for _, a := range c.Args {
			args = append(args, f.val(a))
		}
		return f.builtin(b.Name(), args, c, rt, pos)
	}
	var args []*SVal
	if c.IsInvoke() {
		recv := f.val(c.Value)
		args = append(args, recv)
		for _, a := range c.Args {
			args = append(args, f.val(a))
		}
		key := invokeKey(c)
		if m := models[key]; m != nil {
			return m(f, args, rt, pos)
		}
		if ct := g.P.Specs.Contracts[key]; ct != nil {
			if ct.Dispatch {
				return f.dispatchCall(c, args, rt, pos, key)
			}
			return f.callContract(ct, nil, c.Signature(), args, rt, pos, key)
		}
		return f.havocCall(nil, key, c, args, rt, pos)
	}
	for _, a := range c.Args {
		args = append(args, f.val(a))
	}
	callee := c.StaticCallee()
	if callee != nil && f.isInit && callee.Name() == "init" && callee.Synthetic != "" {
		return nil // other packages' initializers: evaluated on demand
	}
	if callee == nil {
		fv := f.val(c.Value)
		if fv.Clo != nil {
			all := append(append([]*SVal{}, args...))
			return f.inlineOrContract(fv.Clo.Fn, all, fv.Clo, rt, pos)
		}
		if r, ok := f.dynCall(fv, c, args, rt, pos); ok {
			return r
		}
		return f.havocCall(nil, "dynamic call", c, args, rt, pos)
	}
	if mc, ok := c.Value.(*ssa.MakeClosure); ok {
		clo := &Closure{Fn: callee}
		for _, b := range mc.Bindings {
			clo.Bindings = append(clo.Bindings, f.val(b))
		}
		return f.inlineOrContract(callee, args, clo, rt, pos)
	}
	return f.inlineOrContract(callee, args, nil, rt, pos)
}

func invokeKey(c *ssa.CallCommon) string {
	t := c.Value.Type()
	return "(" + typeKey(t) + ")." + c.Method.Name()
}

func (f *Frame) inlineOrContract(callee *ssa.Function, args []*SVal, clo *Closure, rt types.Type, pos token.Pos) *SVal {
	g := f.g
	key := funcKey(callee)
	if m := models[key]; m != nil {
		return m(f, args, rt, pos)
	}
	ct := g.P.contractFor(callee)
	if ct != nil && !ct.Inline {
		return f.callContract(ct, callee, callee.Signature, args, rt, pos, key)
	}
	if g.P.canInline(callee) && (ct == nil || !ct.NoInline) {
		if f.depth < maxInlineDepth && !g.inStack(key) {
			return f.inlineCall(callee, args, clo, pos)
		}
	}
	return f.havocCall(callee, key, nil, args, rt, pos)
}

func (g *Gen) inStack(key string) bool {
	for _, k := range g.inlineStack {
		if k == key {
			return true
		}
	}
	return false
}

// funcKey: canonical name (generic instances map to their origin)
func funcKey(fn *ssa.Function) string {
	if o := fn.Origin(); o != nil {
		return o.String()
	}
	return fn.String()
}

// ------------------------------------------------------------------ inlining

func (f *Frame) inlineCall(callee *ssa.Function, args []*SVal, clo *Closure, pos token.Pos) *SVal {
	g := f.g
	cf := g.newFrame(callee, false)
	cf.depth = f.depth + 1
	cf.parent = f
	cf.callerScopes = f.activeMods()
	for i, p := range callee.Params {
		if i < len(args) {
			cf.vals[p] = cf.coerce(args[i], p.Type())
		}
	}
	if clo != nil {
		for i, fv := range callee.FreeVars {
			if i < len(clo.Bindings) {
				cf.vals[fv] = clo.Bindings[i]
			}
		}
	}
	g.inlineStack = append(g.inlineStack, funcKey(callee))
	g.Notes["inlined: "+funcKey(callee)] = true
	cf.run(f.curReach, f.curState)
	g.inlineStack = g.inlineStack[:len(g.inlineStack)-1]
	if len(cf.rets) == 0 {
		f.curReach = "false"
		rs := callee.Signature.Results()
		if rs.Len() == 0 {
			return nil
		}
		if rs.Len() == 1 {
			return g.zero(rs.At(0).Type())
		}
		return g.zero(rs)
	}
	var conds []string
	var sts []*State
	for _, r := range cf.rets {
		conds = append(conds, r.reach)
		sts = append(sts, r.st)
	}
	f.curReach = g.define("r.ret."+callee.Name(), SBool, sOr(conds...))
	f.curState = g.join(sts, conds)
	nres := callee.Signature.Results().Len()
	if nres == 0 {
		return nil
	}
	res := make([]*SVal, nres)
	for i := 0; i < nres; i++ {
		var v *SVal
		for k := len(cf.rets) - 1; k >= 0; k-- {
			rv := cf.rets[k].vals[i]
			if v == nil {
				v = rv
			} else {
				v = g.iteVal(cf.rets[k].reach, rv, v)
			}
		}
		res[i] = g.nameVal("ret."+callee.Name(), v)
	}
	if nres == 1 {
		return res[0]
	}
	return &SVal{T: callee.Signature.Results(), K: KTuple, Sub: res}
}

// ------------------------------------------------------------------ modular call

func (f *Frame) bindParams(env *Env, ct *Contract, callee *ssa.Function, sig *types.Signature, args []*SVal) {
	var names []string
	if callee != nil && len(callee.Params) == len(args) {
		for _, p := range callee.Params {
			names = append(names, p.Name())
		}
	}
	if len(ct.ParamNames) > 0 {
		names = ct.ParamNames
	}
	if len(names) == 0 {
		// interface method: receiver "self" + signature parameter names
		names = append(names, "self")
		for i := 0; i < sig.Params().Len(); i++ {
			n := sig.Params().At(i).Name()
			if n == "" || n == "_" {
				n = fmt.Sprintf("arg%d", i)
			}
			names = append(names, n)
		}
	}
	for i, a := range args {
		if i < len(names) {
			env.vars[names[i]] = a
		}
		env.vars[fmt.Sprintf("arg%d", i)] = a
	}
}

func (e *Env) bindResults(sig *types.Signature, res []*SVal) {
	for i, r := range res {
		e.vars[fmt.Sprintf("result%d", i)] = r
		if n := sig.Results().At(i).Name(); n != "" && n != "_" {
			e.vars[n] = r
		}
	}
	if len(res) == 1 {
		e.vars["result"] = res[0]
	}
}

func (f *Frame) callContract(ct *Contract, callee *ssa.Function, sig *types.Signature, args []*SVal, rt types.Type, pos token.Pos, key string) *SVal {
	g := f.g
	if ct.Trusted {
		g.note("trusted contract: %s", ct.Key)
	} else {
		g.note("callee contract used: %s", ct.Key)
	}
	pkg := g.P.typesPkg(ct.PkgPath)
	pre := f.curState
	env := &Env{g: g, f: nil, pkg: pkg, vars: map[string]*SVal{}, cur: pre, old: pre, reach: f.curReach}
	env.asGoal()
	f.bindParams(env, ct, callee, sig, args)
	for _, rq := range ct.Requires {
		if rq.ObjInv {
			g.note("object invariant of %s is not demanded at call sites (its state is private to the declaring package, whose methods are verified to establish and preserve it): %s", shortName(key), rq.Text)
			continue
		}
		g.beginGoal()
		o := f.oblige("precond", env.evalBool(rq.E), pos, "precondition of "+shortName(key))
		g.endGoal()
		o.Clause = rq.Text
		o.Callee = key
	}
	post := g.clone(pre)
	// the callee may allocate: advance the watermark first, so that heap versions created by the havoc below
	// are dated after it (a location the callee writes may hold a pointer to an object it allocated)
	g.havocAlloc(post, f.curReach)
	allocDone := true
	if ct.HasModifies {
		var items []*modItem
		for _, m := range ct.Modifies {
			items = append(items, env.evalMod(m.E)...)
		}
		star := false
		for _, it := range items {
			if it.kind == "star" {
				star = true
			}
		}
		if star {
			post = g.newEpochState()
			g.assume("true", wmInv(g.heapGet(post, allocHeap, allocSort)))
			f.keepPrivateLocals(pre, post)
			f.checkItemsAllowed(items, pos, key)
		} else {
			f.checkItemsAllowed(items, pos, key)
			for _, it := range items {
				g.havocItem(post, f.curReach, it)
			}
			// ghost receive counts are not part of the modifies language: a callee whose code may receive
			// from a channel forgets them
			if callee == nil || ct.Trusted {
				for i := 0; i < sig.Params().Len(); i++ {
					if kindOf(sig.Params().At(i).Type()) == KChan {
						g.havocNames(post, &modSet{names: chanGhostNames()})
					}
				}
			} else if cms := g.P.funcModSet(callee); cms.all || cms.names[recvHeap] != "" || len(cms.paramCalls) > 0 {
				g.havocNames(post, &modSet{names: chanGhostNames()})
			}
		}
	} else {
		var ms *modSet
		if callee != nil && !ct.Trusted {
			ms = f.calleeModSet(callee, args)
		} else {
			ms = g.P.externalModSet(sig, args, callee != nil || true)
		}
		f.checkNamesAllowed(ms, pos, key)
		if ms.all {
			post = g.newEpochState()
			g.assume("true", wmInv(g.heapGet(post, allocHeap, allocSort)))
			f.keepPrivateLocals(pre, post)
		} else {
			g.havocNames(post, ms)
		}
	}
	if post.epoch != pre.epoch {
		allocDone = false // a new epoch state has its own fresh watermark
	}
	_ = allocDone
	if !ct.NonBlocking {
		g.advanceClock(f.curReach, pre, post)
		f.mayBlock(pos, key)
	}
	f.curState = post
	var res []*SVal
	for i := 0; i < sig.Results().Len(); i++ {
		v := g.freshVal(sig.Results().At(i).Type(), "res."+shortName(key))
		g.assume(f.curReach, g.typeInv(v))
		g.assume(f.curReach, g.refFacts(post, v))
		res = append(res, v)
	}
	env2 := &Env{g: g, pkg: pkg, vars: env.vars, cur: post, old: pre, reach: f.curReach}
	env2 = env2.child()
	env2.asAssume(f.curReach)
	env2.bindResults(sig, res)
	for _, r := range res {
		g.addNamed(r)
	}
	for _, en := range ct.Ensures {
		// a postcondition that speaks about the callee's own local variables means nothing to a caller: it
		// is checked in the callee and not assumed here (dropping an assumption is sound)
		func() {
			saveQ, saveQB := g.inQuant, len(g.qbuilding)
			defer func() {
				if r := recover(); r != nil {
					se, ok := r.(specErr)
					if !ok || !strings.Contains(string(se), "unknown identifier") {
						panic(r)
					}
					g.inQuant, g.qbuilding = saveQ, g.qbuilding[:saveQB]
					g.note("postcondition of %s over its local variables not used at call sites: %s", key, en.Text)
				}
			}()
			g.assume(f.curReach, env2.evalBool(en.E))
		}()
	}
	switch len(res) {
	case 0:
		return nil
	case 1:
		return res[0]
	}
	return &SVal{T: sig.Results(), K: KTuple, Sub: res}
}

func shortName(key string) string {
	if i := strings.LastIndex(key, "/"); i >= 0 {
		return key[i+1:]
	}
	return key
}

// havocCall: no contract, not inlinable.
func (f *Frame) havocCall(callee *ssa.Function, key string, c *ssa.CallCommon, args []*SVal, rt types.Type, pos token.Pos) *SVal {
	g := f.g
	var ms *modSet
	var sig *types.Signature
	switch {
	case callee != nil && g.P.inModule(callee) && len(callee.Blocks) > 0:
		ms = f.calleeModSet(callee, args)
		sig = callee.Signature
		g.note("uncontracted callee (frame computed from its body, result unconstrained, its panic-freedom is not assumed here but checked only if it is itself listed): %s", key)
	case callee != nil:
		sig = callee.Signature
		ms = g.P.externalModSet(sig, args, false)
		g.note("external callee with default contract (result unconstrained; writes only through its slice/pointer arguments; does not panic): %s", key)
	default:
		sig = c.Signature()
		if cms := (*modSet)(nil); c.IsInvoke() && g.P.isModuleType(c.Value.Type()) {
			if cms = g.P.closedInvokeModSet(c, 0); cms != nil {
				ms = cms
				g.note("interface call on module type without contract (frame: union of the frames of the module's implementations; the interface cannot be implemented outside the module): %s", key)
			} else {
				ms = &modSet{all: true}
				g.note("interface call on module type without contract (everything havocked): %s", key)
			}
		} else {
			ms = g.P.externalModSet(sig, args, c.IsInvoke())
			g.note("external/dynamic callee with default contract: %s", key)
		}
	}
	f.checkNamesAllowed(ms, pos, key)
	preClock := f.curState
	if ms.all {
		f.curState = g.newEpochState()
		g.assume("true", wmInv(g.heapGet(f.curState, allocHeap, allocSort)))
		f.keepPrivateLocals(preClock, f.curState)
	} else {
		f.curState = g.clone(f.curState)
		g.havocNames(f.curState, ms)
		g.havocAlloc(f.curState, f.curReach)
	}
	g.advanceClock(f.curReach, preClock, f.curState)
	f.mayBlock(pos, key)
	if rt == nil {
		return nil
	}
	if tup, ok := rt.(*types.Tuple); ok && tup.Len() == 0 {
		return nil
	}
	v := g.freshVal(rt, "res."+shortName(key))
	g.assume(f.curReach, g.typeInv(v))
	g.assume(f.curReach, g.refFacts(f.curState, v))
	return v
}

// calleeModSet: the static frame of callee at a call with these arguments: where callee calls one of its
// function-valued parameters, what the function passed there writes is added (everything, if unknown).
func (f *Frame) calleeModSet(callee *ssa.Function, args []*SVal) *modSet {
	p := f.g.P
	ms := p.funcModSet(callee)
	if len(ms.paramCalls) == 0 {
		return ms
	}
	out := newModSet()
	out.add(ms)
	for k := range ms.paramCalls {
		if k >= len(args) || args[k] == nil || args[k].Clo == nil || args[k].Clo.Fn == nil {
			out.all = true
			break
		}
		cms := p.funcModSet(args[k].Clo.Fn)
		out.add(cms)
		if len(cms.paramCalls) > 0 {
			out.all = true
		}
	}
	return out
}

func (g *Gen) havocNames(st *State, ms *modSet) {
	for _, hn := range sortedKeys(ms.names) {
		srt := ms.names[hn]
		if old, ok := g.heapSort[hn]; ok && old != srt {
			panic(fmt.Sprintf("heap %s: sort mismatch %s vs %s", hn, old, srt))
		}
		g.heapSort[hn] = srt
		if hn == allocHeap {
			continue
		}
		st.heaps[hn] = g.fresh("hv", srt)
	}
}

// ------------------------------------------------------------------ frames (modifies checking)

type modScope struct {
	items []*modItem
	wm    string // allocation watermark when the scope began (objects above are fresh)
	what  string
}

func (f *Frame) activeMods() []*modScope {
	var out []*modScope
	out = append(out, f.callerModsList()...)
	if f.fnScope != nil {
		out = append(out, f.fnScope)
	}
	for _, li := range f.loopList {
		if li.scope != nil && f.curBlock != nil && li.body[f.curBlock] {
			out = append(out, li.scope)
		}
	}
	return out
}

func (f *Frame) callerModsList() []*modScope { return f.callerScopes }

func (g *Gen) matchLoc(sc *modScope, fam, idx string) string {
	var alts []string
	for _, it := range sc.items {
		switch it.kind {
		case "star":
			return "true"
		case "loc":
			if it.fam == fam {
				alts = append(alts, sEq(it.idx, idx))
			}
		case "fam":
			if famOfHeap(it.fam) == fam || it.fam == fam {
				return "true"
			}
		}
	}
	alts = append(alts, sAnd(sNot(sEq(idx, bv64(0))), sApp("bvuge", objOf(idx), sc.wm)))
	return sOr(alts...)
}

// matchLocOrNil: a callee's declared location rooted at nil cannot actually be written
func (g *Gen) matchLocOrNil(sc *modScope, fam, idx string) string {
	return sOr(sEq(idx, bv64(0)), g.matchLoc(sc, fam, idx))
}

func (g *Gen) matchElem(sc *modScope, fam, base, lo, hi string) string {
	var alts []string
	for _, it := range sc.items {
		switch it.kind {
		case "star":
			return "true"
		case "elemAll":
			if it.fam == fam {
				alts = append(alts, sEq(it.base, base))
			}
		case "elemRange":
			if it.fam == fam {
				alts = append(alts, sAnd(sEq(it.base, base), sApp("bvsle", it.lo, lo), sApp("bvsle", hi, it.hi)))
			}
		case "fam":
			if it.fam == fam {
				return "true"
			}
		}
	}
	alts = append(alts, sAnd(sNot(sEq(base, bv64(0))), sApp("bvuge", objOf(base), sc.wm)))
	return sOr(alts...)
}

func (g *Gen) matchMap(sc *modScope, ref string) string {
	var alts []string
	for _, it := range sc.items {
		switch it.kind {
		case "star":
			return "true"
		case "map":
			alts = append(alts, sEq(it.idx, ref))
		}
	}
	alts = append(alts, sAnd(sNot(sEq(ref, bv64(0))), sApp("bvuge", objOf(ref), sc.wm)))
	return sOr(alts...)
}

func (g *Gen) matchGlobal(sc *modScope, fam string) string {
	for _, it := range sc.items {
		if it.kind == "star" || it.kind == "global" && it.fam == fam {
			return "true"
		}
	}
	return "false"
}

// checkStore: a store through p of type t must be permitted by every active frame.
func (f *Frame) checkStore(p *SVal, t types.Type, pos token.Pos) {
	scopes := f.activeMods()
	if len(scopes) == 0 || f.g.specMode > 0 {
		return
	}
	f.checkStoreRec(scopes, p, t, pos)
}

func (f *Frame) checkStoreRec(scopes []*modScope, p *SVal, t types.Type, pos token.Pos) {
	g := f.g
	switch kindOf(t) {
	case KStruct:
		st := structOf(t)
		for i := 0; i < st.NumFields(); i++ {
			f.checkStoreRec(scopes, g.fieldAddr(p, t, i), st.Field(i).Type(), pos)
		}
		return
	case KArray:
		at := t.Underlying().(*types.Array)
		if elemTwoLevel(at.Elem()) {
			lo, hi := bv64(0), bv64(at.Len())
			if p.Off != "" {
				lo, hi = p.Off, sApp("bvadd", p.Off, bv64(at.Len()))
			}
			for _, sc := range scopes {
				f.oblige("modifies", g.matchElem(sc, elemFam(at.Elem()), p.Term, lo, hi), pos, "array store within "+sc.what)
			}
		}
		return
	}
	pr := g.provOf(p, t)
	for _, sc := range scopes {
		var goal string
		switch pr.Kind {
		case 1:
			goal = g.matchLoc(sc, pr.Fam, pr.Idx)
		case 2:
			goal = g.matchElem(sc, pr.Fam, pr.Base, pr.Idx, sApp("bvadd", pr.Idx, bv64(1)))
		case 3:
			goal = g.matchGlobal(sc, pr.Fam)
		}
		f.oblige("modifies", goal, pos, "store within "+sc.what)
	}
}

func (f *Frame) checkMapWrite(m *SVal, mt *types.Map, pos token.Pos) {
	if f.g.specMode > 0 {
		return
	}
	for _, sc := range f.activeMods() {
		f.oblige("modifies", f.g.matchMap(sc, m.Term), pos, "map write within "+sc.what)
	}
}

func (f *Frame) checkItemsAllowed(items []*modItem, pos token.Pos, callee string) {
	g := f.g
	if g.specMode > 0 {
		return
	}
	for _, sc := range f.activeMods() {
		for _, it := range items {
			var goal string
			switch it.kind {
			case "ghost":
				continue // ghost state is not part of any frame
			case "star":
				goal = "false"
				for _, x := range sc.items {
					if x.kind == "star" {
						goal = "true"
					}
				}
			case "loc":
				goal = g.matchLocOrNil(sc, it.fam, it.idx)
			case "elemAll":
				goal = g.matchElem(sc, it.fam, it.base, bv64(-(1 << 62)), bv64(1<<62))
				// elemAll in callee needs elemAll (or fresh) in caller
				var alts []string
				for _, x := range sc.items {
					if x.kind == "star" || x.kind == "fam" && x.fam == it.fam {
						alts = append(alts, "true")
					}
					if x.kind == "elemAll" && x.fam == it.fam {
						alts = append(alts, sEq(x.base, it.base))
					}
				}
				alts = append(alts, sAnd(sNot(sEq(it.base, bv64(0))), sApp("bvuge", objOf(it.base), sc.wm)))
				goal = sOr(alts...)
			case "elemRange":
				goal = g.matchElem(sc, it.fam, it.base, it.lo, it.hi)
			case "map":
				goal = g.matchMap(sc, it.idx)
			case "global":
				goal = g.matchGlobal(sc, it.fam)
			case "fam":
				goal = "false"
				for _, x := range sc.items {
					if x.kind == "star" || x.kind == "fam" && x.fam == it.fam {
						goal = "true"
					}
				}
			}
			o := f.oblige("modifies", goal, pos, fmt.Sprintf("callee %s modifies %s: within %s", shortName(callee), it.text, sc.what))
			o.Callee = callee
		}
	}
}

func (f *Frame) checkNamesAllowed(ms *modSet, pos token.Pos, callee string) {
	g := f.g
	if g.specMode > 0 {
		return
	}
	scopes := f.activeMods()
	if len(scopes) == 0 {
		return
	}
	for _, sc := range scopes {
		ok := true
		if ms.all {
			ok = false
		}
		for hn := range ms.names {
			if hn == allocHeap {
				continue
			}
			covered := false
			for _, x := range sc.items {
				if x.kind == "star" || x.kind == "fam" && x.fam == hn {
					covered = true
				}
			}
			if !covered {
				ok = false
			}
		}
		for _, x := range sc.items {
			if x.kind == "star" {
				ok = true
			}
		}
		if !ok {
			o := f.oblige("modifies", "false", pos, fmt.Sprintf("callee %s has no modifies clause (heap-level frame) but the caller has a frame (%s)", shortName(callee), sc.what))
			o.Callee = callee
		}
	}
}

// ------------------------------------------------------------------ builtins

func constOfTerm(t string) (int64, bool) {
	if strings.HasPrefix(t, "#x") && len(t) == 18 {
		n := new(big.Int)
		n.SetString(t[2:], 16)
		if n.BitLen() < 63 {
			return n.Int64(), true
		}
	}
	return 0, false
}

// arrCopy returns an array term equal to dst with n elements copied from src[soff..] to dst[doff..].
func (g *Gen) arrCopy(esort Sort, dst, doff, src, soff, n string) string {
	if c, ok := constOfTerm(n); ok && c >= 0 && c <= 64 {
		t := dst
		for i := int64(0); i < c; i++ {
			t = sStore(t, bvAddC(doff, i), sSel(src, bvAddC(soff, i)))
		}
		return t
	}
	as := arrSort(SBV64, esort)
	na := g.fresh("cp", as)
	k := g.nm("k")
	in := sAnd(sApp("bvsle", doff, k), sApp("bvslt", k, sApp("bvadd", doff, n)))
	g.assume("true", fmt.Sprintf("(forall ((%s (_ BitVec 64))) (! (= (select %s %s) (ite %s (select %s (bvadd %s (bvsub %s %s))) (select %s %s))) :pattern ((select %s %s))))",
		k, na, k, in, src, soff, k, doff, dst, k, na, k))
	g.quantAsm = true
	return na
}

func bvAddC(t string, c int64) string {
	if c == 0 {
		return t
	}
	if v, ok := constOfTerm(t); ok {
		return bv64(v + c)
	}
	return sApp("bvadd", t, bv64(c))
}

func (f *Frame) builtin(name string, args []*SVal, c *ssa.CallCommon, rt types.Type, pos token.Pos) *SVal {
	g := f.g
	switch name {
	case "len", "cap":
		v := args[0]
		switch v.K {
		case KSlice:
			if name == "len" {
				return mkInt(v.Sub[2].Term)
			}
			return mkInt(v.Sub[3].Term)
		case KString:
			g.usedStr = true
			return mkInt(sApp("strlen", v.Term))
		case KMap:
			return mkInt(f.mapLen(f.curState, v, v.T.Underlying().(*types.Map)))
		case KChan:
			r := g.fresh("chanlen", SBV64)
			g.assume(f.curReach, g.lenBound(r))
			return mkInt(r)
		case KPtr:
			if at, ok := v.T.Underlying().(*types.Pointer).Elem().Underlying().(*types.Array); ok {
				return mkInt(bv64(at.Len()))
			}
		case KArray:
			return mkInt(bv64(v.T.Underlying().(*types.Array).Len()))
		}
	case "min", "max":
		r := args[0]
		for _, b := range args[1:] {
			b = f.coerce(b, r.T)
			if r.K != KInt {
				return scalar(rt, r.K, g.fresh("minmax", g.W.scalarSort(rt)))
			}
			_, signed := intInfo(r.T)
			op := "bvule"
			if signed {
				op = "bvsle"
			}
			cnd := sApp(op, r.Term, b.Term)
			if name == "max" {
				cnd = sNot(cnd)
			}
			r = scalar(r.T, KInt, sIte(cnd, r.Term, b.Term))
		}
		return r
	case "append":
		return f.appendBuiltin(args[0], args[1], rt, pos)
	case "copy":
		dst, src := args[0], args[1]
		et := dst.T.Underlying().(*types.Slice).Elem()
		var slen string
		if src.K == KString {
			g.usedStr = true
			slen = sApp("strlen", src.Term)
		} else {
			slen = src.Sub[2].Term
		}
		n := g.define("copy.n", SBV64, sIte(sApp("bvsle", dst.Sub[2].Term, slen), dst.Sub[2].Term, slen))
		if !elemTwoLevel(et) {
			ms := g.P.typeHeapNames(et, "S|"+typeKey(et))
			f.checkNamesAllowed(ms, pos, "copy")
			g.havocNames(f.curState, ms)
			g.note("%s: copy of composite elements abstracted (destination family havocked)", f.fn.String())
			return mkInt(n)
		}
		f.checkElemWrite(elemFam(et), dst.Sub[0].Term, dst.Sub[1].Term, sApp("bvadd", dst.Sub[1].Term, n), pos)
		srt := g.elemHeapSort(et)
		h := g.heapGet(f.curState, elemFam(et), srt)
		var sarr, soff string
		if src.K == KString {
			sarr, soff = sApp("str_bytes", src.Term), bv64(0)
		} else {
			sarr, soff = sSel(h, src.Sub[0].Term), src.Sub[1].Term
		}
		na := g.arrCopy(g.W.scalarSort(et), sSel(h, dst.Sub[0].Term), dst.Sub[1].Term, sarr, soff, n)
		g.heapSet(f.curState, elemFam(et), srt, sStore(h, dst.Sub[0].Term, na))
		return mkInt(n)
	case "delete":
		mt := args[0].T.Underlying().(*types.Map)
		f.mapDelete(args[0], mt, f.coerce(args[1], mt.Key()), pos)
		return nil
	case "clear":
		if args[0].K == KMap {
			f.mapClear(args[0], args[0].T.Underlying().(*types.Map), pos)
			return nil
		}
		s := args[0]
		et := s.T.Underlying().(*types.Slice).Elem()
		if elemTwoLevel(et) {
			f.checkElemWrite(elemFam(et), s.Sub[0].Term, s.Sub[1].Term, sApp("bvadd", s.Sub[1].Term, s.Sub[2].Term), pos)
			srt := g.elemHeapSort(et)
			h := g.heapGet(f.curState, elemFam(et), srt)
			na := g.fresh("clr", arrSort(SBV64, g.W.scalarSort(et)))
			k := g.nm("k")
			in := sAnd(sApp("bvsle", s.Sub[1].Term, k), sApp("bvslt", k, sApp("bvadd", s.Sub[1].Term, s.Sub[2].Term)))
			g.assume("true", fmt.Sprintf("(forall ((%s (_ BitVec 64))) (! (= (select %s %s) (ite %s %s (select %s %s))) :pattern ((select %s %s))))",
				k, na, k, in, g.zeroScalar(et), sSel(h, s.Sub[0].Term), k, na, k))
			g.quantAsm = true
			g.heapSet(f.curState, elemFam(et), srt, sStore(h, s.Sub[0].Term, na))
			return nil
		}
		ms := g.P.typeHeapNames(et, "S|"+typeKey(et))
		f.checkNamesAllowed(ms, pos, "clear")
		g.havocNames(f.curState, ms)
		return nil
	case "print", "println":
		return nil
	case "close":
		g.note("%s: close(chan) abstracted", f.fn.String())
		return nil
	case "recover":
		return g.zero(rt)
	case "ssa:wrapnilchk":
		return args[0]
	case "String": // unsafe.String
		g.usedStr = true
		if src := g.sliceDataOf[args[0].Term]; src != nil && kindOf(src.T.Underlying().(*types.Slice).Elem()) == KInt && elemBits(src.T.Underlying().(*types.Slice).Elem()) == 8 {
			// unsafe.String(unsafe.SliceData(b), n): the bytes of b at this point (the aliasing with later
			// writes to b is not modelled: strings are immutable values here)
			g.note("%s: unsafe.String(unsafe.SliceData(b), n) is the string of b's first n bytes at that point (later writes to b are not reflected)", f.fn.String())
			n := idx64(args[1])
			f.oblige("panic", sAnd(sApp("bvsge", n, bv64(0)), sApp("bvsle", n, src.Sub[3].Term)), pos, "unsafe.String: length within the slice's capacity")
			// strings are immutable values in this model: that is only right for a string laid over memory nobody
			// else holds - memory this very function allocated. Over caller-owned memory (a buffer the caller goes
			// on writing to) the "string" would change under its holder.
			if f.entry != nil {
				f.oblige("aliasing", sOr(sEq(n, bv64(0)), sNot(g.allocated(f.entry, src.Sub[0].Term))), pos, "unsafe.String over memory the function did not allocate itself (the string would alias a buffer its owner may overwrite)")
			}
			h := g.heapGet(f.curState, elemFam(tByte), g.elemHeapSort(tByte))
			return scalar(rt, KString, sApp("str_of_bytes", sSel(h, src.Sub[0].Term), src.Sub[1].Term, n))
		}
		g.note("%s: unsafe.String abstracted (arbitrary string of the given length)", f.fn.String())
		r := scalar(rt, KString, g.fresh("ustr", SStr))
		g.assume(f.curReach, sEq(sApp("strlen", r.Term), idx64(args[1])))
		return r
	case "StringData", "SliceData":
		g.note("%s: unsafe.%s abstracted (opaque pointer)", f.fn.String(), name)
		r := &SVal{T: rt, K: KPtr, Term: g.fresh("udata", SBV64), Prov: &Prov{Kind: -1}}
		if name == "SliceData" && args[0].K == KSlice {
			if g.sliceDataOf == nil {
				g.sliceDataOf = map[string]*SVal{}
			}
			g.sliceDataOf[r.Term] = args[0]
		}
		return r
	case "Slice": // unsafe.Slice(ptr, n)
		g.note("%s: unsafe.Slice abstracted (fresh backing array of the given length)", f.fn.String())
		n := idx64(args[1])
		f.oblige("panic", sApp("bvsge", n, bv64(0)), pos, "unsafe.Slice: negative length")
		base := g.newRef(f.curState, f.curReach, "uslice")
		return &SVal{T: rt, K: KSlice, Sub: []*SVal{mkInt(base), mkInt(bv64(0)), mkInt(n), mkInt(n)}}
	case "Add":
		g.note("%s: unsafe.Add abstracted", f.fn.String())
		return &SVal{T: rt, K: KUnsafePtr, Term: g.fresh("uadd", SBV64)}
	}
	panic(unsupported("builtin " + name))
}

func (f *Frame) checkElemWrite(fam, base, lo, hi string, pos token.Pos) {
	if f.g.specMode > 0 {
		return
	}
	for _, sc := range f.activeMods() {
		f.oblige("modifies", sOr(sEq(lo, hi), f.g.matchElem(sc, fam, base, lo, hi)), pos, "bulk write within "+sc.what)
	}
}

func (f *Frame) appendBuiltin(s, t *SVal, rt types.Type, pos token.Pos) *SVal {
	g := f.g
	et := rt.Underlying().(*types.Slice).Elem()
	s = f.coerce(s, rt)
	var n string
	if t.K == KString {
		g.usedStr = true
		n = sApp("strlen", t.Term)
	} else {
		n = t.Sub[2].Term
	}
	if c, ok := constOfTerm(n); ok && c == 0 {
		return s
	}
	newLen := g.define("app.len", SBV64, sApp("bvadd", s.Sub[2].Term, n))
	fits := g.define("app.fits", SBool, sApp("bvsle", newLen, s.Sub[3].Term))
	nb := g.newRef(f.curState, f.curReach, "app.base")
	nc := g.fresh("app.cap", SBV64)
	g.assume(f.curReach, sAnd(sApp("bvsle", newLen, nc), sApp("bvsle", nc, bv64(1<<maxLenBits))))
	res := &SVal{T: rt, K: KSlice, Sub: []*SVal{
		mkInt(sIte(fits, s.Sub[0].Term, nb)),
		mkInt(sIte(fits, s.Sub[1].Term, bv64(0))),
		mkInt(newLen),
		mkInt(sIte(fits, s.Sub[3].Term, nc)),
	}}
	if !elemTwoLevel(et) {
		ms := g.P.typeHeapNames(et, "S|"+typeKey(et))
		f.checkNamesAllowed(ms, pos, "append")
		g.havocNames(f.curState, ms)
		g.note("%s: append of composite elements abstracted (element family havocked)", f.fn.String())
		return res
	}
	// frame: in-place writes touch s's backing array beyond len
	if g.specMode == 0 {
		for _, sc := range f.activeMods() {
			lo := sApp("bvadd", s.Sub[1].Term, s.Sub[2].Term)
			f.oblige("modifies", sOr(sNot(fits), g.matchElem(sc, elemFam(et), s.Sub[0].Term, lo, sApp("bvadd", lo, n))), pos, "append in place within "+sc.what)
		}
	}
	srt := g.elemHeapSort(et)
	es := g.W.scalarSort(et)
	h := g.heapGet(f.curState, elemFam(et), srt)
	var tarr, toff string
	if t.K == KString {
		tarr, toff = sApp("str_bytes", t.Term), bv64(0)
	} else {
		tarr, toff = sSel(h, t.Sub[0].Term), t.Sub[1].Term
	}
	sarr := sSel(h, s.Sub[0].Term)
	inPlace := g.arrCopy(es, sarr, sApp("bvadd", s.Sub[1].Term, s.Sub[2].Term), tarr, toff, n)
	// reallocation: new array = s's elements then t's
	re1 := g.arrCopy(es, g.constArray(arrSort(SBV64, es), es, g.zeroScalar(et)), bv64(0), sarr, s.Sub[1].Term, s.Sub[2].Term)
	re2 := g.arrCopy(es, re1, s.Sub[2].Term, tarr, toff, n)
	g.heapSet(f.curState, elemFam(et), srt, sIte(fits, sStore(h, s.Sub[0].Term, inPlace), sStore(h, nb, re2)))
	return res
}

// dispatchCall resolves an interface method call by a case split over the dynamic type: one case per
// module type implementing the interface (its method is called by contract, or inlined), and a last case
// for every other dynamic type, where the call is havocked under the default contract.
func (f *Frame) dispatchCall(c *ssa.CallCommon, args []*SVal, rt types.Type, pos token.Pos, key string) *SVal {
	g := f.g
	recv := args[0]
	iface, ok := c.Value.Type().Underlying().(*types.Interface)
	if !ok {
		panic(unsupported("dispatch on non-interface " + c.Value.Type().String()))
	}
	tagT := recv.Sub[0].Term
	f.oblige("nilderef", sNot(sEq(tagT, bvLit(big.NewInt(0), 32))), pos, "method call on nil interface value")
	baseReach, baseState := f.curReach, f.curState
	var conds []string
	var sts []*State
	var vals []*SVal
	others := []string{baseReach}
	for _, im := range g.P.implementors(iface, c.Method.Name()) {
		tagc := sEq(tagT, bvLit(big.NewInt(int64(g.W.typeTag(im.T))), 32))
		f.curReach = g.define("r.disp", SBool, sAnd(baseReach, tagc))
		f.curState = g.clone(baseState)
		fn := im.Fn
		cv := f.unbox(recv, im.T)
		// a synthetic wrapper (*T).M around a value-receiver method T.M: call the declared method
		if fn.Synthetic != "" {
			if pt, isPtr := im.T.(*types.Pointer); isPtr {
				if sel := g.P.prog.MethodSets.MethodSet(pt.Elem()).Lookup(c.Method.Pkg(), c.Method.Name()); sel != nil {
					if vf := g.P.prog.MethodValue(sel); vf != nil && vf.Synthetic == "" {
						f.oblige("nilderef", sNot(sEq(cv.Term, bv64(0))), pos, "nil pointer in interface, value-receiver method")
						cv = g.load(f.curState, cv, pt.Elem())
						fn = vf
					}
				}
			}
		}
		g.note("dispatch %s: %s", key, fn.String())
		r := f.inlineOrContract(fn, append([]*SVal{cv}, args[1:]...), nil, rt, pos)
		conds = append(conds, f.curReach)
		sts = append(sts, f.curState)
		vals = append(vals, r)
		others = append(others, sNot(tagc))
	}
	f.curReach = g.define("r.disp.other", SBool, sAnd(others...))
	f.curState = g.clone(baseState)
	r := f.havocCall(nil, key, c, args, rt, pos)
	conds = append(conds, f.curReach)
	sts = append(sts, f.curState)
	vals = append(vals, r)
	f.curReach = g.define("r.disp.join", SBool, sOr(conds...))
	f.curState = g.join(sts, conds)
	res := vals[len(vals)-1]
	if res == nil {
		return nil
	}
	for i := len(vals) - 2; i >= 0; i-- {
		if vals[i] != nil {
			res = g.iteVal(conds[i], vals[i], res)
		}
	}
	return res
}

// dynCall: a call through a function value, where the contract names the possible targets
// ("dyncall f1, f2": functions of exactly the callee's signature). The value must provably be one of
// them (an obligation); the call is then a case split over the named functions.
func (f *Frame) dynCall(fv *SVal, c *ssa.CallCommon, args []*SVal, rt types.Type, pos token.Pos) (*SVal, bool) {
	g := f.g
	if f.contract == nil || !f.isTop {
		return nil, false
	}
	sig, ok := c.Value.Type().Underlying().(*types.Signature)
	if !ok {
		return nil, false
	}
	for _, set := range f.contract.DynCalls {
		var fns []*ssa.Function
		okSet := true
		for _, cl := range set {
			var fn *ssa.Function
			func() {
				defer func() {
					if r := recover(); r != nil {
						if _, isSpec := r.(specErr); !isSpec {
							panic(r)
						}
					}
				}()
				env := f.specEnv(f.curState, f.entry)
				v := env.eval(cl.E)
				if v.K == KFunc && v.Clo != nil {
					fn = v.Clo.Fn
				}
			}()
			if fn == nil || !types.Identical(fn.Signature, sig) {
				okSet = false
				break
			}
			fns = append(fns, fn)
		}
		if !okSet || len(fns) == 0 {
			continue
		}
		var alts []string
		for _, fn := range fns {
			alts = append(alts, sEq(fv.Term, bv64(int64(g.W.funcID(fn.String())))))
		}
		o := f.oblige("dyncall", sOr(alts...), pos, "function value is one of the targets named by the dyncall clause")
		o.Clause = "dyncall"
		baseReach, baseState := f.curReach, f.curState
		var conds []string
		var sts []*State
		var vals []*SVal
		for i, fn := range fns {
			f.curReach = g.define("r.dyn", SBool, sAnd(baseReach, alts[i]))
			f.curState = g.clone(baseState)
			g.note("dyncall: %s", fn.String())
			r := f.inlineOrContract(fn, args, nil, rt, pos)
			conds = append(conds, f.curReach)
			sts = append(sts, f.curState)
			vals = append(vals, r)
		}
		f.curReach = g.define("r.dyn.join", SBool, sOr(conds...))
		f.curState = g.join(sts, conds)
		res := vals[len(vals)-1]
		for i := len(vals) - 2; i >= 0; i-- {
			if vals[i] != nil && res != nil {
				res = g.iteVal(conds[i], vals[i], res)
			}
		}
		return res, true
	}
	return nil, false
}

// mayBlock: a function whose contract says nonblocking may only call (by contract or havoc) callees that
// are nonblocking themselves.
func (f *Frame) mayBlock(pos token.Pos, key string) {
	if f.g.nonBlockingUnit && f.g.specMode == 0 {
		o := f.oblige("nonblocking", "false", pos, "a function declared nonblocking calls "+shortName(key)+", which may block")
		o.Clause = "nonblocking"
	}
}
