package main

import (
	"fmt"
	"go/types"
	"os"
	"runtime/debug"
	"sort"
	"strings"
	"sync"
	"time"

	"golang.org/x/tools/go/ssa"
)

// ---------------------------------------------------------------------------
// Verification units: a function under contract (or swept for panic-freedom),
// a lemma. Each unit yields obligations that are discharged by SMT.
// ---------------------------------------------------------------------------

type OblResult struct {
	Name    string  `json:"name"`
	Kind    string  `json:"kind"`
	Desc    string  `json:"desc,omitempty"`
	Clause  string  `json:"clause,omitempty"`
	Pos     string  `json:"pos,omitempty"`
	Status  string  `json:"status"` // proved, failed (sat), unknown, timeout, error
	Solver  string  `json:"solver,omitempty"`
	TimeS   float64 `json:"time_s"`
	Batch   bool    `json:"batch,omitempty"`
	SMTFile string  `json:"smt_file,omitempty"`
	Output  string  `json:"solver_output,omitempty"`
	Agree   int     `json:"agreeing_backends,omitempty"`
	Stage   string  `json:"stage,omitempty"`
	Candidate bool  `json:"candidate_model_only,omitempty"`
	QFModelFile string `json:"qf_smt_file,omitempty"`
	obl     *Obligation
}

type UnitResult struct {
	Unit     string       `json:"unit"`
	Kind     string       `json:"kind"`
	Key      string       `json:"key"`
	Obls     []*OblResult `json:"obligations"`
	Notes    []string     `json:"notes,omitempty"`
	Cover    string       `json:"cover,omitempty"` // sat = some return reachable under the assumptions
	DeadReturns []string  `json:"unreachable_returns,omitempty"` // returns no input reaches under the contract (expected for error paths a precondition excludes; anything else means a contradictory contract)
	Error    string       `json:"error,omitempty"`
	Quant    bool         `json:"quantified_assumptions,omitempty"`
	Instances int         `json:"hypothesis_instances,omitempty"`
	WallS    float64      `json:"wall_s"`
	HasSpec  bool         `json:"has_contract"`
	gen      *Gen
	frame    *Frame
	lemmaVals map[string]*SVal
}

type Options struct {
	TimeoutMs int
	Agree     int
	WorkDir   string
	KeepSMT   bool
	Solvers   []string
	NoBatch   bool
}

func (f *Frame) specEnv(cur, old *State) *Env {
	var pkg *types.Package
	fn := f.fn
	for fn != nil && fn.Pkg == nil && fn.Parent() != nil {
		fn = fn.Parent()
	}
	if fn != nil && fn.Pkg != nil {
		pkg = fn.Pkg.Pkg
	} else if f.fn != nil {
		if o := f.fn.Origin(); o != nil && o.Pkg != nil {
			pkg = o.Pkg.Pkg
		}
	}
	if f.contract != nil {
		if p := f.g.P.typesPkg(f.contract.PkgPath); p != nil {
			pkg = p
		}
	}
	e := &Env{g: f.g, f: f, pkg: pkg, vars: map[string]*SVal{}, cur: cur, old: old, reach: f.curReach}
	for _, p := range f.fn.Params {
		if v, ok := f.vals[p]; ok {
			e.vars[p.Name()] = v
		}
	}
	if f.contract != nil && len(f.contract.ParamNames) > 0 {
		for i, n := range f.contract.ParamNames {
			if i < len(f.fn.Params) {
				e.vars[n] = f.vals[f.fn.Params[i]]
			}
		}
	}
	return e
}

func unitName(fn *ssa.Function, modPath string) string {
	s := funcKey(fn)
	return strings.ReplaceAll(s, modPath+"/", "")
}

// buildFuncUnit generates all obligations for one function.
func (p *Program) buildFuncUnit(fn *ssa.Function) (ur *UnitResult) {
	name := unitName(fn, p.ModPath)
	g := newGen(p, name)
	ur = &UnitResult{Unit: name, Kind: "func", Key: fn.String(), gen: g}
	defer func() {
		if r := recover(); r != nil {
			switch e := r.(type) {
			case unsupportedErr:
				ur.Error = e.Error()
			case specErr:
				ur.Error = e.Error()
			default:
				ur.Error = fmt.Sprintf("internal error: %v\n%s", r, debug.Stack())
			}
		}
	}()
	f := g.newFrame(fn, true)
	ur.frame = f
	ur.HasSpec = f.contract != nil
	if f.contract != nil {
		g.nonBlockingUnit = f.contract.NonBlocking
		g.reveals = map[string]bool{}
		for _, n := range f.contract.Reveals {
			g.reveals[n] = true
		}
	}
	st := g.newEpochState()
	g.entry = st
	wm0 := g.heapGet(st, allocHeap, allocSort)
	g.assume("true", wmInv(wm0))
	for i, prm := range fn.Params {
		v := g.freshVal(prm.Type(), prm.Name())
		g.assume("true", g.typeInv(v))
		g.assume("true", g.refFacts(st, v))
		g.addNamed(v)
		if i == 0 && fn.Signature.Recv() != nil && v.K == KPtr {
			g.assume("true", sNot(sEq(v.Term, bv64(0))))
			g.note("method receivers are assumed non-nil")
		}
		f.vals[prm] = v
	}
	for _, fv := range fn.FreeVars {
		v := g.freshVal(fv.Type(), fv.Name())
		g.assume("true", g.typeInv(v))
		g.assume("true", g.refFacts(st, v))
		if v.K == KPtr && fn.Synthetic == "" {
			// the address of a captured variable
			g.assume("true", sNot(sEq(v.Term, bv64(0))))
		}
		f.vals[fv] = v
	}
	f.curReach, f.curState = "true", st
	if f.contract != nil {
		env := f.specEnv(st, st).asAssume("true")
		for _, rq := range f.contract.Requires {
			if rq.ObjInv {
				g.note("object invariant assumed on entry of %s (established by the constructor and re-proved at every return of every method under contract; callers are not asked for it): %s", fn.Name(), rq.Text)
			}
			g.assume("true", env.evalBool(rq.E))
		}
		env = f.specEnv(st, st)
		if f.contract.HasModifies {
			sc := &modScope{wm: wm0, what: "modifies clause of " + fn.Name()}
			for _, m := range f.contract.Modifies {
				sc.items = append(sc.items, env.evalMod(m.E)...)
			}
			f.fnScope = sc
		}
	}
	f.run("true", st)
	for ri := range f.rets {
		r := f.rets[ri]
		rp := &f.rets[ri]
		g.covers = append(g.covers, r.reach)
		g.coverPos = append(g.coverPos, f.pos(r.pos).String())
		if f.contract == nil {
			continue
		}
		env := f.specEnv(r.st, st).asGoal()
		env.bindResults(fn.Signature, r.vals)
		for _, rv := range r.vals {
			g.addNamed(rv)
		}
		// postconditions may mention local variables as they are at this return
		env.at = r.blk
		if r.blk != nil {
			env.atIdx = len(r.blk.Instrs)
		}
		for _, en := range f.contract.Ensures {
			g.beginGoal()
			o := g.oblige("ensures", r.reach, evalEnsuresAt(env, en.E), f.pos(r.pos), "postcondition of "+fn.Name())
			g.endGoal()
			o.Clause = en.Text
			o.Ret = rp
		}
	}
	if f.contract != nil {
		for _, cs := range f.contract.Callsites {
			if f.callsiteHits[cs] == 0 {
				panic(specErr("callsite clause for " + cs.Callee + " matched no call in " + fn.Name() + " (callee renamed or clause does not type-check anywhere: " + f.callsiteWhy[cs] + ")"))
			}
		}
	}
	// ground instances of quantified hypotheses (sequential: touches shared tables)
	ur.Instances = g.instantiate(2)
	eqDefiner = nil
	return ur
}

// buildLemmaUnit: forall params. requires ==> ensures, over an arbitrary heap.
func (p *Program) buildLemmaUnit(l *Lemma) (ur *UnitResult) {
	g := newGen(p, "lemma:"+l.Name)
	ur = &UnitResult{Unit: "lemma:" + l.Name, Kind: "lemma", Key: l.Name, gen: g, HasSpec: true}
	defer func() {
		if r := recover(); r != nil {
			switch e := r.(type) {
			case unsupportedErr:
				ur.Error = e.Error()
			case specErr:
				ur.Error = e.Error()
			default:
				ur.Error = fmt.Sprintf("internal error: %v\n%s", r, debug.Stack())
			}
		}
	}()
	g.reveals = map[string]bool{}
	for _, n := range l.Reveals {
		g.reveals[n] = true
	}
	st := g.newEpochState()
	g.entry = st
	g.assume("true", wmInv(g.heapGet(st, allocHeap, allocSort)))
	env := &Env{g: g, pkg: p.typesPkg(l.PkgPath), vars: map[string]*SVal{}, cur: st, old: st, reach: "true"}
	for _, prm := range l.Params {
		t := env.resolveType(prm.Type)
		v := g.freshVal(t, prm.Name)
		g.assume("true", g.typeInv(v))
		g.assume("true", g.refFacts(st, v))
		g.addNamed(v)
		env.vars[prm.Name] = v
		if ur.lemmaVals == nil {
			ur.lemmaVals = map[string]*SVal{}
		}
		ur.lemmaVals[prm.Name] = v
	}
	env.asAssume("true")
	for _, rq := range l.Requires {
		g.assume("true", env.evalBool(rq.E))
	}
	g.covers = []string{"true"}
	env.asGoal()
	for _, en := range l.Ensures {
		g.beginGoal()
		o := g.oblige("lemma", "true", env.evalBool(en.E), posOfClause(en), "lemma "+l.Name)
		g.endGoal()
		o.Clause = en.Text
	}
	ur.Instances = g.instantiate(2)
	eqDefiner = nil
	return ur
}

// ------------------------------------------------------------------ SMT assembly

func (g *Gen) prelude(qf bool) string { return g.preludeOpt(qf, false) }

// preludeOpt: with absMul the element-address product emul is an uninterpreted function (a sound weakening:
// only "unsat" answers of such a query are used).
func (g *Gen) preludeOpt(qf bool, absMul bool) string {
	var sb strings.Builder
	sb.WriteString("(set-option :produce-models true)\n(set-logic ALL)\n")
	if absMul {
		sb.WriteString("(declare-fun emul ((_ BitVec 64) (_ BitVec 64)) (_ BitVec 64))\n")
	} else {
		sb.WriteString("(define-fun emul ((a (_ BitVec 64)) (b (_ BitVec 64))) (_ BitVec 64) (bvmul a b))\n")
	}
	for _, o := range sortedKeys(g.W.opaque) {
		fmt.Fprintf(&sb, "(declare-sort %s 0)\n", o)
	}
	sb.WriteString("(declare-sort F64 0)\n")
	sb.WriteString(`(declare-sort Str 0)
(declare-fun strlen (Str) (_ BitVec 64))
(declare-fun strat (Str (_ BitVec 64)) (_ BitVec 8))
(declare-fun str_sub (Str (_ BitVec 64) (_ BitVec 64)) Str)
(declare-fun str_cat (Str Str) Str)
(declare-fun str_of_bytes ((Array (_ BitVec 64) (_ BitVec 8)) (_ BitVec 64) (_ BitVec 64)) Str)
(declare-fun str_bytes (Str) (Array (_ BitVec 64) (_ BitVec 8)))
(declare-const str_empty Str)
`)
	if g.usedStr && !qf {
		sb.WriteString(`(assert (= (strlen str_empty) #x0000000000000000))
(assert (forall ((s Str)) (! (and (bvsle #x0000000000000000 (strlen s)) (bvsle (strlen s) #x0001000000000000)) :pattern ((strlen s)))))
(assert (forall ((s Str) (lo (_ BitVec 64)) (hi (_ BitVec 64))) (! (=> (and (bvsle #x0000000000000000 lo) (bvsle lo hi) (bvsle hi (strlen s))) (= (strlen (str_sub s lo hi)) (bvsub hi lo))) :pattern ((str_sub s lo hi)))))
(assert (forall ((s Str) (lo (_ BitVec 64)) (hi (_ BitVec 64)) (i (_ BitVec 64))) (! (=> (and (bvsle #x0000000000000000 lo) (bvsle lo hi) (bvsle hi (strlen s)) (bvsle #x0000000000000000 i) (bvslt i (bvsub hi lo))) (= (strat (str_sub s lo hi) i) (strat s (bvadd lo i)))) :pattern ((strat (str_sub s lo hi) i)))))
(assert (forall ((a Str) (b Str)) (! (=> (bvsle (bvadd (strlen a) (strlen b)) #x0001000000000000) (= (strlen (str_cat a b)) (bvadd (strlen a) (strlen b)))) :pattern ((str_cat a b)))))
(assert (forall ((a (Array (_ BitVec 64) (_ BitVec 8))) (o (_ BitVec 64)) (n (_ BitVec 64))) (! (=> (and (bvsle #x0000000000000000 n) (bvsle n #x0001000000000000)) (= (strlen (str_of_bytes a o n)) n)) :pattern ((str_of_bytes a o n)))))
(assert (forall ((a (Array (_ BitVec 64) (_ BitVec 8))) (o (_ BitVec 64)) (n (_ BitVec 64)) (i (_ BitVec 64))) (! (=> (and (bvsle #x0000000000000000 i) (bvslt i n) (bvsle n #x0001000000000000)) (= (strat (str_of_bytes a o n) i) (select a (bvadd o i)))) :pattern ((strat (str_of_bytes a o n) i)))))
(assert (forall ((a (Array (_ BitVec 64) (_ BitVec 8))) (o (_ BitVec 64)) (n (_ BitVec 64)) (i (_ BitVec 64)) (v (_ BitVec 8))) (! (=> (and (bvsle #x0000000000000000 o) (bvsle #x0000000000000000 n) (bvsle n #x0001000000000000) (bvsle o #x0001000000000000) (or (bvslt i o) (bvsge i (bvadd o n)))) (= (str_of_bytes (store a i v) o n) (str_of_bytes a o n))) :pattern ((str_of_bytes (store a i v) o n)))))
(assert (forall ((s Str) (i (_ BitVec 64))) (! (= (select (str_bytes s) i) (strat s i)) :pattern ((select (str_bytes s) i)))))
`)
	}
	return sb.String()
}

func isQuantified(a string) bool {
	return strings.Contains(a, "(forall ") || strings.Contains(a, "(exists ")
}

func (g *Gen) declsText() string {
	var sb strings.Builder
	for _, d := range g.decls {
		sb.WriteString(d)
		sb.WriteByte('\n')
	}
	return sb.String()
}

// body: declarations plus the assumptions made before sequence point 'upto'.
func (g *Gen) body(qf bool, upto int) string { return g.bodyR(qf, upto, 0) }

func (g *Gen) bodyR(qf bool, upto int, rc int) string {
	var sb strings.Builder
	sb.WriteString(g.declsText())
	for _, a := range g.asms {
		if a.seq >= upto || (rc > 0 && a.round > rc) {
			continue
		}
		if qf && isQuantified(a.text) {
			continue
		}
		sb.WriteString("(assert ")
		sb.WriteString(a.text)
		sb.WriteString(")\n")
	}
	return sb.String()
}

func oblTerm(o *Obligation) string { return sImp(o.Reach, o.Goal) }

// query: the obligations are checked in program order; obligation k may use
// exactly the assumptions made before it. For a batch this is encoded as
//   A(<o1) and not( G1 and (A[o1,o2) => G2) and (A[o1,o3) => G3) ... )
func (g *Gen) query(obls []*Obligation, qf bool) string { return g.queryOpt(obls, qf, false) }

// queryOpt: with sliced=true only assumptions in the goal's cone of influence are kept
// (single obligation only).
func (g *Gen) queryOpt(obls []*Obligation, qf bool, sliced bool) string {
	return g.queryAbs(obls, qf, sliced, false)
}

func (g *Gen) queryAbs(obls []*Obligation, qf bool, sliced bool, absMul bool) string {
	return g.queryR(obls, qf, sliced, absMul, 0)
}

// queryR: rc > 0 keeps only the ground instances made in instantiation rounds <= rc
func (g *Gen) queryR(obls []*Obligation, qf bool, sliced bool, absMul bool, rc int) string {
	if sliced && len(obls) == 1 {
		return g.slicedQuery(obls[0], qf, absMul, rc)
	}
	sorted := append([]*Obligation{}, obls...)
	sort.SliceStable(sorted, func(i, j int) bool { return sorted[i].Seq < sorted[j].Seq })
	first := sorted[0].Seq
	var sb strings.Builder
	sb.WriteString(g.preludeOpt(qf, absMul))
	sb.WriteString(g.bodyR(qf, first, rc))
	var gs []string
	prefix := "true"
	prev := first
	for k, o := range sorted {
		if k > 0 {
			var between []string
			for _, a := range g.asms {
				if rc > 0 && a.round > rc {
					continue
				}
				if a.seq >= prev && a.seq < o.Seq && !(qf && isQuantified(a.text)) {
					between = append(between, a.text)
				}
			}
			if len(between) > 0 {
				name := fmt.Sprintf("batch!prefix!%d", k)
				fmt.Fprintf(&sb, "(define-fun %s () Bool %s)\n", name, sAnd(append([]string{prefix}, between...)...))
				prefix = name
			}
			prev = o.Seq
		}
		goal := oblTerm(o)
		if o.Origin != "" {
			var priv []string
			for _, a := range g.privAsms[o.Origin] {
				if rc > 0 && a.round > rc {
					continue
				}
				if a.seq < o.Seq && !(qf && isQuantified(a.text)) {
					priv = append(priv, a.text)
				}
			}
			goal = sImp(sAnd(priv...), goal)
		}
		gs = append(gs, sImp(prefix, goal))
	}
	sb.WriteString("(assert (not " + sAnd(gs...) + "))\n(check-sat)\n")
	return sb.String()
}

func (g *Gen) slicedQuery(o *Obligation, qf bool, absMul bool, rc int) string {
	if g.slicer == nil {
		g.slicer = g.newSlicer()
	}
	var texts []string
	for _, a := range g.asms {
		if a.seq >= o.Seq || (qf && isQuantified(a.text)) || (rc > 0 && a.round > rc) {
			continue
		}
		texts = append(texts, a.text)
	}
	if o.Origin != "" {
		for _, a := range g.privAsms[o.Origin] {
			if rc > 0 && a.round > rc {
				continue
			}
			if a.seq < o.Seq && !(qf && isQuantified(a.text)) {
				texts = append(texts, a.text)
			}
		}
	}
	goal := oblTerm(o)
	keep := g.slicer.relevant([]string{goal}, texts)
	var sb strings.Builder
	sb.WriteString(g.preludeOpt(qf, absMul))
	sb.WriteString(g.declsText())
	for i, t := range texts {
		if keep[i] {
			sb.WriteString("(assert " + t + ")\n")
		}
	}
	sb.WriteString("(assert (not " + goal + "))\n(check-sat)\n")
	return sb.String()
}

func (g *Gen) coverQuery() string {
	return g.prelude(true) + g.body(true, 1<<30) + "(assert " + sOr(g.covers...) + ")\n(check-sat)\n"
}

// coverQueryFull: the same with the quantified assumptions (detects inconsistent axioms)
func (g *Gen) coverQueryFull() string {
	return g.prelude(false) + g.body(false, 1<<30) + "(assert " + sOr(g.covers...) + ")\n(check-sat)\n"
}

func (g *Gen) hasQuantAsm() bool {
	if g.usedStr {
		return true
	}
	for _, a := range g.asms {
		if isQuantified(a.text) {
			return true
		}
	}
	return false
}

func posOfClause(c *Clause) (pos tokenPosition) {
	pos.Filename = c.File
	pos.Line = c.Line
	return
}

// ------------------------------------------------------------------ discharge

func (ur *UnitResult) discharge(opt Options) {
	start := time.Now()
	defer func() { ur.WallS = time.Since(start).Seconds() }()
	g := ur.gen
	if ur.Error != "" || g == nil {
		return
	}
	ur.Notes = sortedKeys(g.Notes)
	ur.Quant = g.hasQuantAsm()
	for _, o := range g.Obls {
		r := &OblResult{Name: o.Name, Kind: o.Kind, Desc: o.Desc, Clause: o.Clause, obl: o}
		if o.Pos.IsValid() {
			r.Pos = fmt.Sprintf("%s:%d", strings.TrimPrefix(o.Pos.Filename, g.P.RepoDir+"/"), o.Pos.Line)
		}
		ur.Obls = append(ur.Obls, r)
	}
	if len(g.Obls) == 0 {
		return
	}
	// trivial ones first
	var pending []*OblResult
	for _, r := range ur.Obls {
		if r.obl.Goal == "true" || r.obl.Reach == "false" {
			r.Status, r.Solver = "proved", "trivial"
			continue
		}
		pending = append(pending, r)
	}
	if len(pending) == 0 {
		return
	}
	dir := opt.WorkDir
	write := func(hint, text string) string {
		fn := scratchFile(dir, hint)
		os.WriteFile(fn, []byte(text), 0o644)
		return fn
	}
	// batch: safety obligations together, functional ones individually
	var batch, single []*OblResult
	for _, r := range pending {
		switch r.Kind {
		case "ensures", "lemma", "invariant-entry", "invariant-preserved", "precond", "loop-exit", "callsite":
			single = append(single, r)
		default:
			batch = append(batch, r)
		}
	}
	if opt.NoBatch {
		single = append(single, batch...)
		batch = nil
	}
	var wg sync.WaitGroup
	if len(batch) > 0 {
		wg.Add(1)
		go func() {
			defer wg.Done()
			var os_ []*Obligation
			for _, r := range batch {
				os_ = append(os_, r.obl)
			}
			if g.usedEmul {
				fileA := write(ur.Unit+"_batch_abs", g.queryAbs(os_, true, false, true))
				ansA, _ := race(fileA, opt.TimeoutMs, 1, opt.Solvers)
				if !opt.KeepSMT {
					os.Remove(fileA)
				}
				if ansA.Status == "unsat" {
					for _, r := range batch {
						r.Status, r.Solver, r.TimeS, r.Batch, r.Agree = "proved", ansA.Solver, ansA.TimeS, true, 1
					}
					return
				}
			}
			file := write(ur.Unit+"_batch", g.query(os_, true))
			ans, _ := race(file, opt.TimeoutMs, 1, opt.Solvers)
			if ans.Status == "unsat" {
				for _, r := range batch {
					r.Status, r.Solver, r.TimeS, r.Batch, r.Agree = "proved", ans.Solver, ans.TimeS, true, 1
				}
				if !opt.KeepSMT {
					os.Remove(file)
				}
				return
			}
			// split
			var wg2 sync.WaitGroup
			for _, r := range batch {
				wg2.Add(1)
				go func(r *OblResult) {
					defer wg2.Done()
					ur.solveOne(r, opt, write)
				}(r)
			}
			wg2.Wait()
			if !opt.KeepSMT {
				os.Remove(file)
			}
		}()
	}
	for _, r := range single {
		wg.Add(1)
		go func(r *OblResult) {
			defer wg.Done()
			ur.solveOne(r, opt, write)
		}(r)
	}
	// vacuity cover
	if len(g.covers) > 0 {
		wg.Add(1)
		go func() {
			defer wg.Done()
			file := write(ur.Unit+"_cover", g.coverQuery())
			ans, _ := race(file, opt.TimeoutMs, 1, opt.Solvers)
			ur.Cover = ans.Status
			if !opt.KeepSMT {
				os.Remove(file)
			}
			if ur.Quant && ans.Status != "unsat" {
				// also with the quantified assumptions: an inconsistent axiom set must not go unnoticed
				file2 := write(ur.Unit+"_cover_full", g.coverQueryFull())
				ct := opt.TimeoutMs / 4
				if ct > 5000 {
					ct = 5000
				}
				ans2, _ := race(file2, ct, 1, opt.Solvers)
				if ans2.Status == "unsat" {
					ur.Cover = "unsat"
				}
				if !opt.KeepSMT {
					os.Remove(file2)
				}
			}
		}()
	}
	// reachability of each return on its own (quantifier-free, short budget): reported, not a failure
	if len(g.covers) > 1 && len(g.covers) == len(g.coverPos) {
		var mu sync.Mutex
		for i := range g.covers {
			wg.Add(1)
			go func(i int) {
				defer wg.Done()
				q := g.prelude(true) + g.body(true, 1<<30) + "(assert " + g.covers[i] + ")\n(check-sat)\n"
				file := write(fmt.Sprintf("%s_ret%d", ur.Unit, i), q)
				ans, _ := race(file, 3000, 1, opt.Solvers)
				os.Remove(file)
				if ans.Status == "unsat" {
					mu.Lock()
					ur.DeadReturns = append(ur.DeadReturns, g.coverPos[i])
					mu.Unlock()
				}
			}(i)
		}
	}
	wg.Wait()
	sort.Strings(ur.DeadReturns)
}

func (ur *UnitResult) solveOne(r *OblResult, opt Options, write func(hint, text string) string) {
	g := ur.gen
	if g.maxRound > 1 {
		// stage 0r: only the first round's instances of the quantified hypotheses (later rounds multiply the
		// query size; most proofs need none of them). Sliced first, then unsliced; only "unsat" is used.
		for _, sl := range []bool{true, false} {
			fileR := write(r.Name+"_r1", g.queryR([]*Obligation{r.obl}, true, sl, g.usedEmul, 1))
			ansR, allR := race(fileR, opt.TimeoutMs, opt.Agree, opt.Solvers)
			if !opt.KeepSMT {
				os.Remove(fileR)
			}
			if ansR.Status == "unsat" {
				r.Stage, r.Solver, r.TimeS, r.Status = "qf-round1", ansR.Solver, ansR.TimeS, "proved"
				for _, a := range allR {
					if a.Status == "unsat" {
						r.Agree++
					}
				}
				return
			}
		}
	}
	if g.usedEmul {
		// stage 0a: as stage 0 with the element-address products uninterpreted (only "unsat" is trusted)
		fileA := write(r.Name+"_sliced_abs", g.queryAbs([]*Obligation{r.obl}, true, true, true))
		ansA, allA := race(fileA, opt.TimeoutMs, opt.Agree, opt.Solvers)
		if !opt.KeepSMT {
			os.Remove(fileA)
		}
		if ansA.Status == "unsat" {
			r.Stage, r.Solver, r.TimeS, r.Status = "qf-sliced-absmul", ansA.Solver, ansA.TimeS, "proved"
			for _, a := range allA {
				if a.Status == "unsat" {
					r.Agree++
				}
			}
			return
		}
	}
	// stage 0: quantifier-free and sliced to the goal's cone of influence (only "unsat" is trusted)
	file0 := write(r.Name+"_sliced", g.queryOpt([]*Obligation{r.obl}, true, true))
	ans0, all0 := race(file0, opt.TimeoutMs, opt.Agree, opt.Solvers)
	if ans0.Status == "unsat" {
		r.Stage, r.Solver, r.TimeS, r.Status = "qf-sliced", ans0.Solver, ans0.TimeS, "proved"
		n := 0
		for _, a := range all0 {
			if a.Status == "unsat" {
				n++
			}
		}
		r.Agree = n
		if !opt.KeepSMT {
			os.Remove(file0)
		}
		return
	}
	if !opt.KeepSMT {
		os.Remove(file0)
	}
	// stage 1: quantifier-free (quantified hypotheses dropped, their ground instances kept)
	file := write(r.Name, g.query([]*Obligation{r.obl}, true))
	ans, all := race(file, opt.TimeoutMs, opt.Agree, opt.Solvers)
	stage := "qf"
	if ans.Status != "unsat" && ur.Quant && g.usedEmul {
		// stage 2a: the full query with the element-address products uninterpreted
		fileA := write(r.Name+"_full_abs", g.queryAbs([]*Obligation{r.obl}, false, false, true))
		ansA, allA := race(fileA, opt.TimeoutMs, opt.Agree, opt.Solvers)
		if !opt.KeepSMT {
			os.Remove(fileA)
		}
		if ansA.Status == "unsat" {
			r.Stage, r.Solver, r.TimeS, r.Status = "full-absmul", ansA.Solver, ansA.TimeS, "proved"
			for _, a := range allA {
				if a.Status == "unsat" {
					r.Agree++
				}
			}
			if !opt.KeepSMT {
				os.Remove(file)
			}
			return
		}
	}
	if ans.Status != "unsat" && ur.Quant {
		// stage 2: full query with the quantified hypotheses
		file2 := write(r.Name+"_full", g.query([]*Obligation{r.obl}, false))
		ans2, all2 := race(file2, opt.TimeoutMs, opt.Agree, opt.Solvers)
		if ans2.Status == "unsat" || ans2.Status == "sat" {
			if !opt.KeepSMT {
				os.Remove(file)
			}
			ans, all, file, stage = ans2, all2, file2, "full"
		} else {
			r.QFModelFile = file
			if ans.Status == "sat" {
				// candidate counterexample only: hypotheses were dropped
				ans.Status = "unknown"
				r.Candidate = true
			}
			all = append(all, all2...)
			file = file2
			stage = "full"
		}
	}
	r.Stage = stage
	r.Solver, r.TimeS = ans.Solver, ans.TimeS
	n := 0
	for _, a := range all {
		if a.Status == ans.Status {
			n++
		}
	}
	r.Agree = n
	switch ans.Status {
	case "unsat":
		r.Status = "proved"
		if !opt.KeepSMT {
			os.Remove(file)
		}
	case "sat":
		r.Status = "failed"
		r.SMTFile = file
	default:
		r.Status = ans.Status
		if r.Status == "" || r.Status == "error" || r.Status == "cancelled" {
			r.Status = "unknown"
		}
		r.SMTFile = file
		var outs []string
		for _, a := range all {
			o := a.Output
			if len(o) > 300 {
				o = o[:300]
			}
			outs = append(outs, fmt.Sprintf("%s: %s (%.1fs) %s", a.Solver, a.Status, a.TimeS, o))
		}
		sort.Strings(outs)
		r.Output = strings.Join(outs, " | ")
	}
}

// evalEnsuresAt evaluates a postcondition at one return point. A clause A ==> B whose consequent mentions a
// local variable that does not exist at this return (it is declared later in the function) demands that A
// is false here: the return must not be one the clause speaks about.
func evalEnsuresAt(env *Env, x Expr) (term string) {
	bin, isImp := x.(*EBinary)
	if !isImp || bin.Op != "==>" {
		return env.evalBool(x)
	}
	g := env.g
	saveQ, saveQB := g.inQuant, len(g.qbuilding)
	defer func() {
		if r := recover(); r != nil {
			se, ok := r.(specErr)
			if !ok || !strings.Contains(string(se), "unknown identifier") {
				panic(r)
			}
			g.inQuant, g.qbuilding = saveQ, g.qbuilding[:saveQB]
			ante := env.evalBool(bin.L)
			term = sNot(ante)
		}
	}()
	return env.evalBool(x)
}
