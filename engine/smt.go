package main

import (
	"fmt"
	"regexp"
	"go/types"
	"math/big"
	"sort"
	"strings"
)

// ---------------------------------------------------------------------------
// SMT sorts and small term helpers. Terms are plain strings.
// ---------------------------------------------------------------------------

type Sort string

const (
	SBool Sort = "Bool"
	SBV8  Sort = "(_ BitVec 8)"
	SBV16 Sort = "(_ BitVec 16)"
	SBV32 Sort = "(_ BitVec 32)"
	SBV64 Sort = "(_ BitVec 64)"
	SStr  Sort = "Str"
	SF64  Sort = "F64"
)

func bvSort(n int) Sort { return Sort(fmt.Sprintf("(_ BitVec %d)", n)) }
func arrSort(i, e Sort) Sort {
	return Sort(fmt.Sprintf("(Array %s %s)", i, e))
}

func bvWidth(s Sort) int {
	var n int
	if _, err := fmt.Sscanf(string(s), "(_ BitVec %d)", &n); err == nil {
		return n
	}
	return 0
}

func bvLit(v *big.Int, n int) string {
	m := new(big.Int).Lsh(big.NewInt(1), uint(n))
	x := new(big.Int).Mod(v, m)
	if n%4 == 0 {
		s := x.Text(16)
		return "#x" + strings.Repeat("0", n/4-len(s)) + s
	}
	s := x.Text(2)
	return "#b" + strings.Repeat("0", n-len(s)) + s
}

func bv64(v int64) string { return bvLit(big.NewInt(v), 64) }

func sAnd(xs ...string) string {
	var ys []string
	for _, x := range xs {
		if x == "true" || x == "" {
			continue
		}
		if x == "false" {
			return "false"
		}
		ys = append(ys, x)
	}
	switch len(ys) {
	case 0:
		return "true"
	case 1:
		return ys[0]
	}
	return "(and " + strings.Join(ys, " ") + ")"
}

func sOr(xs ...string) string {
	var ys []string
	for _, x := range xs {
		if x == "false" || x == "" {
			continue
		}
		if x == "true" {
			return "true"
		}
		ys = append(ys, x)
	}
	switch len(ys) {
	case 0:
		return "false"
	case 1:
		return ys[0]
	}
	return "(or " + strings.Join(ys, " ") + ")"
}

func sNot(x string) string {
	switch x {
	case "true":
		return "false"
	case "false":
		return "true"
	}
	return "(not " + x + ")"
}

func sImp(a, b string) string {
	if a == "true" {
		return b
	}
	if a == "false" || b == "true" {
		return "true"
	}
	return "(=> " + a + " " + b + ")"
}

func sIte(c, a, b string) string {
	if c == "true" {
		return a
	}
	if c == "false" {
		return b
	}
	if a == b {
		return a
	}
	return "(ite " + c + " " + a + " " + b + ")"
}

func sEq(a, b string) string {
	if a == b {
		return "true"
	}
	return "(= " + a + " " + b + ")"
}

func sSel(a, i string) string      { return "(select " + a + " " + i + ")" }
func sStore(a, i, v string) string { return "(store " + a + " " + i + " " + v + ")" }
func sApp(f string, xs ...string) string {
	return "(" + f + " " + strings.Join(xs, " ") + ")"
}

// quote an SMT symbol
func sym(s string) string {
	ok := true
	for _, c := range s {
		if !(c >= 'a' && c <= 'z' || c >= 'A' && c <= 'Z' || c >= '0' && c <= '9' || c == '_' || c == '.' || c == '$' || c == '!') {
			ok = false
			break
		}
	}
	if ok && len(s) > 0 && !(s[0] >= '0' && s[0] <= '9') {
		return s
	}
	s = strings.ReplaceAll(s, "|", "!")
	s = strings.ReplaceAll(s, "\\", "!")
	return "|" + s + "|"
}

// ---------------------------------------------------------------------------
// Go type classification
// ---------------------------------------------------------------------------

type Kind int

const (
	KInvalid Kind = iota
	KBool
	KInt    // fixed width integer; see intInfo
	KPtr    // BV64 reference
	KSlice  // base, off, len, cap
	KString // Str
	KIface  // tag BV32, payload BV64
	KStruct // expanded fields
	KArray  // SMT array value (scalar elements)
	KMap    // BV64 reference
	KChan   // BV64 opaque
	KFunc   // BV64 opaque (function identity)
	KTuple
	KFloat
	KOpaque // external value type modelled as an uninterpreted sort
	KTime   // time.Time: sec (BV64 signed), nsec (BV64)
	KUnsafePtr
	KEmpty // zero-size values ([0]T, struct{}): no components
)

var sizes = types.SizesFor("gc", "amd64")

// opaque external struct types (value semantics, uninterpreted)
func isOpaqueNamed(t types.Type) (string, bool) {
	n, ok := types.Unalias(t).(*types.Named)
	if !ok {
		return "", false
	}
	obj := n.Obj()
	if obj.Pkg() == nil {
		return "", false
	}
	p := obj.Pkg().Path()
	switch p + "." + obj.Name() {
	case "net/netip.Addr", "net/netip.AddrPort", "net/netip.Prefix", "unique.Handle":
		return "Opq_" + strings.ReplaceAll(p, "/", "_") + "_" + obj.Name(), true
	}
	return "", false
}

func isTimeTime(t types.Type) bool {
	n, ok := types.Unalias(t).(*types.Named)
	if !ok {
		return false
	}
	obj := n.Obj()
	return obj.Pkg() != nil && obj.Pkg().Path() == "time" && obj.Name() == "Time"
}

func kindOf(t types.Type) Kind {
	if isTimeTime(t) {
		return KTime
	}
	if _, ok := isOpaqueNamed(t); ok {
		return KOpaque
	}
	switch u := t.Underlying().(type) {
	case *types.Basic:
		switch {
		case u.Info()&types.IsBoolean != 0:
			return KBool
		case u.Info()&types.IsInteger != 0:
			return KInt
		case u.Info()&types.IsString != 0:
			return KString
		case u.Info()&types.IsFloat != 0, u.Info()&types.IsComplex != 0:
			return KFloat
		case u.Kind() == types.UnsafePointer:
			return KUnsafePtr
		case u.Kind() == types.UntypedNil:
			return KPtr
		}
	case *types.Pointer:
		return KPtr
	case *types.Slice:
		return KSlice
	case *types.Interface:
		return KIface
	case *types.Struct:
		return KStruct
	case *types.Array:
		if u.Len() == 0 {
			return KEmpty
		}
		return KArray
	case *types.Map:
		return KMap
	case *types.Chan:
		return KChan
	case *types.Signature:
		return KFunc
	case *types.Tuple:
		return KTuple
	case *types.TypeParam:
		return KOpaque
	}
	return KInvalid
}

func intInfo(t types.Type) (bits int, signed bool) {
	b, ok := t.Underlying().(*types.Basic)
	if !ok {
		return 64, true
	}
	switch b.Kind() {
	case types.Int8:
		return 8, true
	case types.Int16:
		return 16, true
	case types.Int32:
		return 32, true
	case types.Int64, types.Int, types.UntypedInt, types.UntypedRune:
		return 64, true
	case types.Uint8:
		return 8, false
	case types.Uint16:
		return 16, false
	case types.Uint32:
		return 32, false
	case types.Uint64, types.Uint, types.Uintptr:
		return 64, false
	}
	return 64, true
}

// typeKey gives a stable textual key for a type (used in heap family names).
var byteRe = regexp.MustCompile(`\bbyte\b`)
var runeRe = regexp.MustCompile(`\brune\b`)

func typeKey(t types.Type) string {
	s := types.TypeString(t, func(p *types.Package) string { return p.Path() })
	// byte/uint8 and rune/int32 are the same type: one heap family
	if strings.Contains(s, "byte") {
		s = byteRe.ReplaceAllString(s, "uint8")
	}
	if strings.Contains(s, "rune") {
		s = runeRe.ReplaceAllString(s, "int32")
	}
	return s
}

// structMemKey names the memory layout of a struct type: named types that share one underlying struct
// (type B A; pointers to them convert into each other) use the same field heaps.
var structCanon = map[*types.Struct]string{}

func structMemKey(t types.Type) string {
	st, ok := t.Underlying().(*types.Struct)
	if !ok {
		return typeKey(t)
	}
	if _, named := types.Unalias(t).(*types.Named); !named {
		return typeKey(t)
	}
	if k, ok := structCanon[st]; ok {
		return k
	}
	// canonical name: the named type declared with the struct literal itself, found by position - the type
	// name whose declaration immediately precedes the struct's fields; otherwise the first one seen
	k := typeKey(t)
	if n, ok := types.Unalias(t).(*types.Named); ok && n.Obj() != nil && n.Obj().Pkg() != nil {
		scope := n.Obj().Pkg().Scope()
		best := ""
		for _, name := range scope.Names() {
			tn, ok := scope.Lookup(name).(*types.TypeName)
			if !ok {
				continue
			}
			if nn, ok := types.Unalias(tn.Type()).(*types.Named); ok && nn.TypeArgs().Len() == 0 {
				if us, ok := nn.Underlying().(*types.Struct); ok && us == st {
					kk := typeKey(nn)
					if best == "" || kk < best {
						best = kk
					}
				}
			}
		}
		if best != "" && best < k {
			k = best
		}
	}
	structCanon[st] = k
	return k
}

// ---------------------------------------------------------------------------
// Symbolic values
// ---------------------------------------------------------------------------

// Prov says where a pointer's pointee lives, when that is not a struct.
type Prov struct {
	Kind int    // 1: one-level family[idx]; 2: two-level elem family[base][idx]; 3: global
	Fam  string // heap family name
	Base string // base term (kind 2)
	Idx  string // index term
	Rel  string // index relative to the slice's offset (kind 2, when known)
	OffT string // the slice's offset term (kind 2, when known)
}

type SVal struct {
	T    types.Type
	K    Kind
	Term string  // scalar term (KBool, KInt, KPtr, KString, KArray, KMap, KChan, KFunc, KOpaque, KFloat)
	Sub  []*SVal // KSlice: base,off,len,cap ; KIface: tag,payload ; KStruct: fields ; KTuple ; KTime: sec,nsec
	Prov *Prov
	// for untyped constants produced by the contract evaluator
	Const *big.Int
	Clo   *Closure // statically known closure (KFunc)
	Imm   bool     // pointer rooted at an immutable global
	Off   string   // pointer to array: element offset inside the backing array ("" = 0)
	// KArray of a small byte array known in packed form: the bit-vector of 8*len bits whose bytes
	// (most significant first) are the elements; Term is then the array built from it
	Packed string
}

func (v *SVal) String() string {
	if v == nil {
		return "<nil>"
	}
	if len(v.Sub) > 0 {
		var xs []string
		for _, s := range v.Sub {
			xs = append(xs, s.String())
		}
		return "{" + strings.Join(xs, ", ") + "}"
	}
	return v.Term
}

func scalar(t types.Type, k Kind, term string) *SVal { return &SVal{T: t, K: k, Term: term} }

var (
	tInt    = types.Typ[types.Int]
	tUint   = types.Typ[types.Uint]
	tInt64  = types.Typ[types.Int64]
	tUint64 = types.Typ[types.Uint64]
	tUint32 = types.Typ[types.Uint32]
	tUint16 = types.Typ[types.Uint16]
	tByte   = types.Typ[types.Uint8]
	tBool   = types.Typ[types.Bool]
	tString = types.Typ[types.String]
	tUPtr   = types.Typ[types.Uintptr]
)

func mkBool(term string) *SVal { return scalar(tBool, KBool, term) }
func mkInt(term string) *SVal  { return scalar(tInt, KInt, term) }

// Leaf describes one scalar component of a (possibly composite) type.
type Leaf struct {
	Path string
	Sort Sort
}

// World holds cross-function state: type tags, opaque sorts, etc.
type World struct {
	typeTags   map[string]int
	tagTypes   []types.Type
	opaque     map[string]bool // declared opaque sorts
	funcIDs    map[string]int
	strLits    map[string]int
	strLitList []string
}

func newWorld() *World {
	return &World{typeTags: map[string]int{}, opaque: map[string]bool{}, funcIDs: map[string]int{}, strLits: map[string]int{}}
}

func (w *World) typeTag(t types.Type) int {
	k := typeKey(t)
	if id, ok := w.typeTags[k]; ok {
		return id
	}
	id := len(w.typeTags) + 1
	w.typeTags[k] = id
	w.tagTypes = append(w.tagTypes, t)
	return id
}

func (w *World) funcID(name string) int {
	if id, ok := w.funcIDs[name]; ok {
		return id
	}
	id := len(w.funcIDs) + 1
	w.funcIDs[name] = id
	return id
}

func (w *World) strLit(s string) int {
	if id, ok := w.strLits[s]; ok {
		return id
	}
	id := len(w.strLitList)
	w.strLits[s] = id
	w.strLitList = append(w.strLitList, s)
	return id
}

// scalarSort returns the SMT sort for a scalar kind.
func (w *World) scalarSort(t types.Type) Sort {
	switch kindOf(t) {
	case KBool:
		return SBool
	case KInt:
		b, _ := intInfo(t)
		return bvSort(b)
	case KPtr, KMap, KChan, KFunc, KUnsafePtr:
		return SBV64
	case KString:
		return SStr
	case KFloat:
		return SF64
	case KOpaque:
		if n, ok := isOpaqueNamed(t); ok {
			w.opaque[n] = true
			return Sort(n)
		}
		w.opaque["Opq_typeparam"] = true
		return "Opq_typeparam"
	case KArray:
		a := t.Underlying().(*types.Array)
		return arrSort(SBV64, w.scalarSort(a.Elem()))
	}
	panic(unsupported("scalarSort of " + t.String()))
}

func isScalarKind(k Kind) bool {
	switch k {
	case KBool, KInt, KPtr, KMap, KChan, KFunc, KString, KFloat, KOpaque, KUnsafePtr:
		return true
	}
	return false
}

// isScalarType: representable as one SMT term (arrays of scalars included).
func isScalarType(t types.Type) bool {
	k := kindOf(t)
	if isScalarKind(k) {
		return true
	}
	if k == KArray {
		return isScalarKind(kindOf(t.Underlying().(*types.Array).Elem()))
	}
	return false
}

// leaves flattens a type into scalar components.
func (w *World) leaves(t types.Type) []Leaf {
	switch kindOf(t) {
	case KEmpty:
		return nil
	case KSlice:
		return []Leaf{{"base", SBV64}, {"off", SBV64}, {"len", SBV64}, {"cap", SBV64}}
	case KIface:
		return []Leaf{{"tag", SBV32}, {"val", SBV64}}
	case KTime:
		return []Leaf{{"sec", SBV64}, {"nsec", SBV64}}
	case KStruct:
		st := t.Underlying().(*types.Struct)
		var out []Leaf
		for i := 0; i < st.NumFields(); i++ {
			for _, l := range w.leaves(st.Field(i).Type()) {
				// same naming as buildVal: a scalar field i is "i", a leaf p of a composite field i is "i.p"
				out = append(out, Leaf{strings.TrimSuffix(fmt.Sprintf("%d.%s", i, l.Path), "."), l.Sort})
			}
		}
		return out
	case KTuple:
		panic(unsupported("leaves of tuple"))
	case KArray:
		if !isScalarType(t) {
			panic(unsupported("array of composite elements: " + t.String()))
		}
		return []Leaf{{"", w.scalarSort(t)}}
	case KInvalid:
		panic(unsupported("invalid type " + t.String()))
	}
	return []Leaf{{"", w.scalarSort(t)}}
}

// build an SVal tree from leaf terms produced by f(path, sort)
func (w *World) buildVal(t types.Type, prefix string, f func(path string, s Sort) string) *SVal {
	k := kindOf(t)
	join := func(a string) string {
		if prefix == "" {
			return a
		}
		if a == "" {
			return strings.TrimSuffix(prefix, ".")
		}
		return prefix + a
	}
	switch k {
	case KEmpty:
		return &SVal{T: t, K: KEmpty}
	case KSlice:
		v := &SVal{T: t, K: k}
		for _, n := range []string{"base", "off", "len", "cap"} {
			v.Sub = append(v.Sub, scalar(tInt, KInt, f(join(n), SBV64)))
		}
		return v
	case KIface:
		return &SVal{T: t, K: k, Sub: []*SVal{
			scalar(tUint32, KInt, f(join("tag"), SBV32)),
			scalar(tUPtr, KInt, f(join("val"), SBV64))}}
	case KTime:
		return &SVal{T: t, K: k, Sub: []*SVal{
			scalar(tInt64, KInt, f(join("sec"), SBV64)),
			scalar(tInt64, KInt, f(join("nsec"), SBV64))}}
	case KStruct:
		st := t.Underlying().(*types.Struct)
		v := &SVal{T: t, K: k}
		for i := 0; i < st.NumFields(); i++ {
			v.Sub = append(v.Sub, w.buildVal(st.Field(i).Type(), join(fmt.Sprintf("%d.", i)), f))
		}
		return v
	}
	return scalar(t, k, f(join(""), w.scalarSort(t)))
}

// flatten returns the leaf terms of v in the same order as leaves(v.T)
func flatten(v *SVal) []string {
	if v == nil {
		panic(unsupported("flatten nil value"))
	}
	switch v.K {
	case KEmpty:
		return nil
	case KSlice, KIface, KTime, KStruct, KTuple:
		var out []string
		for _, s := range v.Sub {
			out = append(out, flatten(s)...)
		}
		return out
	}
	return []string{v.Term}
}

type unsupportedErr struct{ msg string }

func (u unsupportedErr) Error() string { return "unsupported: " + u.msg }
func unsupported(msg string) error     { return unsupportedErr{msg} }

func sortedKeys[V any](m map[string]V) []string {
	ks := make([]string, 0, len(m))
	for k := range m {
		ks = append(ks, k)
	}
	sort.Strings(ks)
	return ks
}
