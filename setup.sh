#!/bin/bash
# Build the verifier from files on disk only (offline).
set -e
cd "$(dirname "$0")/engine"
export PATH=/opt/veriftools/go1.26.8/bin:$PATH GOTOOLCHAIN=local GOFLAGS=-mod=mod GOPROXY=off GOSUMDB=off
mkdir -p ../bin
go build -o ../bin/govc .
echo "govc built: $(ls -la ../bin/govc | awk '{print $5}') bytes"
