#!/bin/bash
# Re-run every claimed check on the current (unchanged) tree, rewriting evidence and the baseline ledger.
cd "$(dirname "$0")/.."
ids=$(python3 -c "import json; print(' '.join(c['property_id'] for c in json.load(open('MANIFEST.json'))['checks']))")
rc=0
for id in ${*:-$ids}; do
  GOVC_WRITE_LEDGER=1 ./check $id 2>&1 | grep "^govc:\|^VIOLATION\|^KNOWN" || rc=1
done
exit $rc
